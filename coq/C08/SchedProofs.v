(* MV.C08.SchedProofs — proofs about MV.C08.SchedModel. *)
From Coq Require Import ZifyBool.
From MV Require Import Lib.ListX C08.SchedModel.
Open Scope Z_scope.

Arguments Z.add : simpl never.
Arguments Z.sub : simpl never.
Arguments Z.mul : simpl never.
Arguments Z.quot : simpl never.
Arguments Z.rem : simpl never.
Arguments Z.div : simpl never.
Arguments Z.modulo : simpl never.
Arguments Z.ltb : simpl never.
Arguments Z.leb : simpl never.
Arguments Z.eqb : simpl never.
Arguments Z.max : simpl never.
Arguments Z.of_nat : simpl never.

Ltac tsimpl := unfold set_pend, set_trigger, set_kill, set_fired;
  cbn [t_name t_after t_interval t_cron t_total t_trigger t_kill t_timer t_pend t_react t_fired t_reg].
Ltac tsimpl_in H := unfold set_pend, set_trigger, set_kill, set_fired in H;
  cbn [t_name t_after t_interval t_cron t_total t_trigger t_kill t_timer t_pend t_react t_fired t_reg] in H.
Ltac splits := repeat match goal with |- _ /\ _ => split end.

(* ------------------------------------------------------------------ generic: bounded iteration *)

Lemma iter_pos_inv {S R : Type} (P : S -> Prop) (Q : R -> Prop) (step : S -> S + R) :
  (forall s, P s -> match step s with inl s' => P s' | inr r => Q r end) ->
  forall p s, P s -> match iter_pos p step s with inl s' => P s' | inr r => Q r end.
Proof.
  intros Hs. induction p as [q IH|q IH|]; intros s Hp; cbn [iter_pos].
  - specialize (Hs s Hp). destruct (step s) as [s1|r]; auto.
    pose proof (IH s1 Hs) as H1. destruct (iter_pos q step s1) as [s2|r]; auto. apply IH; assumption.
  - pose proof (IH s Hp) as H1. destruct (iter_pos q step s) as [s1|r]; auto. apply IH; assumption.
  - apply Hs; auto.
Qed.

(* ------------------------------------------------------------------ instances of a state *)

Definition nins (s : sched) : nat := length (s_insts s).

Lemma inst_set_inst s i t j :
  inst (set_inst s i t) j = if Nat.eqb j i && Nat.ltb i (nins s) then t else inst s j.
Proof.
  unfold inst, set_inst, with_insts, nins; cbn [s_insts].
  destruct (Nat.eqb_spec j i) as [->|Hne]; cbn [andb].
  - destruct (Nat.ltb_spec i (length (s_insts s))) as [Hlt|Hge].
    + apply nth_upd_same; auto.
    + revert i Hge. induction (s_insts s) as [|h l IH]; intros [|i] Hge; cbn in *; auto; try lia. apply IH; lia.
  - apply nth_upd_other; auto.
Qed.

Lemma nins_set_inst s i t : nins (set_inst s i t) = nins s.
Proof. unfold nins, set_inst, with_insts; cbn [s_insts]. apply upd_length. Qed.

Lemma inst_out s j : (nins s <= j)%nat -> inst s j = dummy_task.
Proof. intros H. unfold inst. apply nth_overflow. exact H. Qed.

(* the parts of a task that never change after its creation *)
Definition same_static (a b : task) : Prop :=
  t_name a = t_name b /\ t_after a = t_after b /\ t_interval a = t_interval b /\ t_cron a = t_cron b /\
  t_total a = t_total b /\ t_react a = t_react b /\ t_reg a = t_reg b /\ t_timer a = t_timer b.

Lemma same_static_refl a : same_static a a.
Proof. repeat split. Qed.
Lemma same_static_trans a b c : same_static a b -> same_static b c -> same_static a c.
Proof. unfold same_static. intuition congruence. Qed.

(* how one task instance may change during one operation *)
Record evolves (t t' : task) : Prop := {
  ev_static : same_static t t';
  ev_fired : t_fired t <= t_fired t';
  ev_kill : t_kill t = true -> t_kill t' = true /\ t_fired t' = t_fired t
}.

Lemma evolves_refl t : evolves t t.
Proof. split; [apply same_static_refl | lia | auto]. Qed.
Lemma evolves_trans a b c : evolves a b -> evolves b c -> evolves a c.
Proof.
  intros [S1 F1 K1] [S2 F2 K2]. split.
  - eapply same_static_trans; eauto.
  - lia.
  - intros Hk. destruct (K1 Hk) as [Hk1 Hf1]. destruct (K2 Hk1) as [Hk2 Hf2]. split; auto. lia.
Qed.

(* ------------------------------------------------------------------ the per-instance invariant *)

Definition e1 (t : task) : Z := to_ms (t_reg t + t_after t).
Definition iv_ms (t : task) : Z := Z.quot (t_interval t) MS.

(* non-cron tasks: trigger counts the Next() calls that scheduled an execution; the timer in the wheel is the
   trigger-th execution, and its expiration is the first one plus (trigger-1) intervals *)
Definition jinv (t : task) : Prop :=
  0 <= t_fired t /\
  (t_cron t = None ->
     t_fired t <= t_trigger t /\ (0 < t_total t -> t_trigger t <= t_total t) /\
     (t_kill t = false ->
        match t_pend t with
        | Some e => 1 <= t_trigger t /\ t_fired t = t_trigger t - 1 /\ e = e1 t + (t_trigger t - 1) * iv_ms t
        | None => 0 < t_total t /\ t_trigger t = t_total t /\ t_fired t = t_total t
        end)) /\
  (t_timer t = true \/ t_kill t = true) /\
  0 <= t_reg t /\ 0 <= t_after t /\ 0 <= t_interval t /\
  (t_cron t <> None -> t_trigger t = 0 /\ t_total t = 0).

Lemma jinv_dummy : jinv dummy_task.
Proof.
  unfold jinv, dummy_task; cbn. split; [lia|]. split.
  - intros _. split; [lia|]. split; [lia|]. intros; discriminate.
  - split; [auto|]. split; [lia|]. split; [lia|]. split; [lia|]. intros HH; congruence.
Qed.

(* ------------------------------------------------------------------ close_task *)

Lemma close_task_evolves t : evolves t (fst (close_task t)).
Proof.
  unfold close_task. destruct (t_kill t) eqn:Hk; cbn [fst]; [apply evolves_refl|].
  destruct (needs_stop t); [destruct (t_timer t)|]; cbn [fst];
    (split; [repeat split | cbn; lia | intros; congruence]).
Qed.

Lemma close_task_kill t : t_kill (fst (close_task t)) = true.
Proof.
  unfold close_task. destruct (t_kill t) eqn:Hk; cbn [fst]; auto.
  destruct (needs_stop t); [destruct (t_timer t)|]; cbn; auto.
Qed.

Lemma jinv_kill t p : jinv t -> jinv (set_pend (set_kill t) p).
Proof.
  intros (F0 & Hn & Htm & R & A & I & C). unfold jinv; cbn.
  split; [exact F0|]. split.
  - intros Hc. destruct (Hn Hc) as (H1 & H2 & H3). split; [exact H1|]. split; [exact H2|]. intros HH; discriminate.
  - split; [right; reflexivity|]. repeat split; auto; apply C; auto.
Qed.

Lemma set_pend_same t : set_pend t (t_pend t) = t.
Proof. destruct t; reflexivity. Qed.

Lemma close_task_jinv t : jinv t -> jinv (fst (close_task t)).
Proof.
  unfold close_task. destruct (t_kill t) eqn:Hk; cbn [fst]; auto.
  intros J.
  destruct (needs_stop t); [destruct (t_timer t)|]; cbn [fst].
  - apply jinv_kill; auto.
  - rewrite <- (set_pend_same (set_kill t)). apply jinv_kill; auto.
  - rewrite <- (set_pend_same (set_kill t)). apply jinv_kill; auto.
Qed.

Lemma close_task_no_crash t : t_timer t = true \/ t_kill t = true -> snd (close_task t) = false.
Proof.
  unfold close_task. intros [H|H]; rewrite ?H.
  - destruct (t_kill t); auto. destruct (needs_stop t); auto.
  - reflexivity.
Qed.

Lemma close_task_pend t : needs_stop t = true -> t_timer t = true -> t_pend (fst (close_task t)) = None \/ t_kill t = true.
Proof.
  unfold close_task. intros Hn Ht. destruct (t_kill t); auto. rewrite Hn, Ht. cbn. auto.
Qed.

(* ------------------------------------------------------------------ the task table *)

Lemma lookup_remove n n' m : lookup n' (remove n m) = if Nat.eqb n' n then None else lookup n' m.
Proof.
  induction m as [|[k i] r IH]; cbn [remove lookup].
  - destruct (Nat.eqb n' n); reflexivity.
  - destruct (Nat.eqb_spec k n) as [->|Hkn].
    + rewrite IH. destruct (Nat.eqb_spec n' n) as [->|Hn]; auto.
      destruct (Nat.eqb_spec n n'); [congruence|auto].
    + cbn [lookup]. rewrite IH. destruct (Nat.eqb_spec k n') as [->|Hk].
      * destruct (Nat.eqb_spec n' n); [congruence|auto].
      * reflexivity.
Qed.

(* ------------------------------------------------------------------ unregister *)

Lemma unregister_fields n s :
  let s' := fst (unregister n s) in
  nins s' = nins s /\ s_tick s' = s_tick s /\ s_fixed s' = s_fixed s /\ s_now s' = s_now s /\ s_stopped s' = s_stopped s.
Proof.
  cbv zeta. unfold unregister. destruct (lookup n (s_map s)) as [i|]; cbn [fst]; [|repeat split].
  destruct (close_task (inst s i)) as [t' c].
  destruct c; cbn [fst]; unfold nins, with_map, set_inst, with_insts; cbn; rewrite upd_length; repeat split.
Qed.

Lemma unregister_inst n s j :
  inst (fst (unregister n s)) j =
  match lookup n (s_map s) with
  | Some i => if Nat.eqb j i then fst (close_task (inst s j)) else inst s j
  | None => inst s j
  end.
Proof.
  unfold unregister. destruct (lookup n (s_map s)) as [i|]; cbn [fst]; auto.
  destruct (close_task (inst s i)) as [t' c] eqn:Hc.
  assert (Hi : inst (set_inst s i t') j = if Nat.eqb j i then fst (close_task (inst s j)) else inst s j).
  { rewrite inst_set_inst. destruct (Nat.eqb_spec j i) as [->|Hne]; cbn [andb]; auto.
    rewrite Hc; cbn [fst]. destruct (Nat.ltb_spec i (nins s)); auto.
    rewrite inst_out in Hc by lia. rewrite inst_out by lia.
    unfold close_task in Hc; cbn in Hc. inversion Hc; reflexivity. }
  destruct c; cbn [fst]; auto.
Qed.

Lemma unregister_map n s :
  s_map (fst (unregister n s)) = if snd (unregister n s) then s_map s else remove n (s_map s).
Proof.
  unfold unregister. destruct (lookup n (s_map s)) as [i|] eqn:Hl; cbn [fst snd].
  - destruct (close_task (inst s i)) as [t' c]. destruct c; cbn [fst snd]; reflexivity.
  - clear -Hl. induction (s_map s) as [|[k i] r IH]; cbn [remove lookup] in *; auto.
    destruct (Nat.eqb k n); [discriminate|]. f_equal. auto.
Qed.

Lemma unregister_crash n s :
  snd (unregister n s) = match lookup n (s_map s) with Some i => snd (close_task (inst s i)) | None => false end.
Proof.
  unfold unregister. destruct (lookup n (s_map s)) as [i|]; cbn [snd]; auto.
  destruct (close_task (inst s i)) as [t' c]. destruct c; reflexivity.
Qed.

Lemma unregister_evolves n s j : evolves (inst s j) (inst (fst (unregister n s)) j).
Proof.
  rewrite unregister_inst. destruct (lookup n (s_map s)) as [i|]; [|apply evolves_refl].
  destruct (Nat.eqb j i); [apply close_task_evolves | apply evolves_refl].
Qed.

Lemma unregister_jinv n s : (forall j, jinv (inst s j)) -> forall j, jinv (inst (fst (unregister n s)) j).
Proof.
  intros H j. rewrite unregister_inst. destruct (lookup n (s_map s)) as [i|]; auto.
  destruct (Nat.eqb j i); auto. apply close_task_jinv; auto.
Qed.

Lemma unregister_no_crash n s : (forall j, jinv (inst s j)) -> snd (unregister n s) = false.
Proof.
  intros H. rewrite unregister_crash. destruct (lookup n (s_map s)) as [i|]; auto.
  apply close_task_no_crash. destruct (H i) as (_ & _ & Ht & _). exact Ht.
Qed.

(* ------------------------------------------------------------------ close_all (Clear / Close) *)

Definition jall (s : sched) : Prop := forall j, jinv (inst s j).

Lemma close_all_spec m : forall s, jall s ->
  let s' := fst (close_all m s) in
  snd (close_all m s) = false /\ jall s' /\
  nins s' = nins s /\ s_tick s' = s_tick s /\ s_fixed s' = s_fixed s /\ s_now s' = s_now s /\ s_stopped s' = s_stopped s /\
  (forall j, evolves (inst s j) (inst s' j)) /\
  (forall n, lookup n (s_map s') = if existsb (Nat.eqb n) (map fst m) then None else lookup n (s_map s)) /\
  (forall n j, In n (map fst m) -> lookup n (s_map s) = Some j -> t_kill (inst s' j) = true).
Proof.
  induction m as [|[n i0] r IH]; intros s J; cbv zeta; cbn [close_all map fst existsb].
  - cbn [fst snd]. splits; auto; try (intros; apply evolves_refl); try (intros n j []).
  - pose proof (unregister_no_crash n s J) as Hc.
    pose proof (unregister_fields n s) as HF. cbv zeta in HF.
    pose proof (unregister_jinv n s J) as J1.
    pose proof (unregister_map n s) as HM. rewrite Hc in HM.
    destruct (unregister n s) as [s1 c] eqn:Hu. cbn [fst snd] in *. subst c.
    specialize (IH s1 J1). cbv zeta in IH.
    destruct IH as (C & J2 & N & T & F & Nw & St & Ev & Lk & Kl).
    destruct HF as (N1 & T1 & F1 & Nw1 & St1).
    splits; auto; try congruence.
    + intros j. eapply evolves_trans; [|apply Ev].
      replace s1 with (fst (unregister n s)) by (rewrite Hu; reflexivity). apply unregister_evolves.
    + intros n'. rewrite Lk, HM, lookup_remove.
      destruct (Nat.eqb_spec n' n) as [->|Hne]; cbn [orb].
      * destruct (existsb (Nat.eqb n) (map fst r)); reflexivity.
      * reflexivity.
    + intros n' j [<-|Hin] Hl.
      * (* j is closed by this unregister, and stays killed *)
        assert (Hk : t_kill (inst s1 j) = true).
        { replace s1 with (fst (unregister n s)) by (rewrite Hu; reflexivity).
          rewrite unregister_inst, Hl, Nat.eqb_refl. apply close_task_kill. }
        destruct (Ev j) as [_ _ K]. apply K; auto.
      * destruct (Nat.eqb_spec n' n) as [->|Hne].
        -- assert (Hk : t_kill (inst s1 j) = true).
           { replace s1 with (fst (unregister n s)) by (rewrite Hu; reflexivity).
             rewrite unregister_inst, Hl, Nat.eqb_refl. apply close_task_kill. }
           destruct (Ev j) as [_ _ K]. apply K; auto.
        -- apply (Kl n' j Hin). rewrite HM, lookup_remove.
           destruct (Nat.eqb_spec n' n); [congruence|auto].
Qed.

(* ------------------------------------------------------------------ state invariant *)

Definition map_sound (s : sched) : Prop :=
  forall n i, lookup n (s_map s) = Some i -> (i < nins s)%nat /\ t_name (inst s i) = n.
Definition live_mapped (s : sched) : Prop :=
  forall j, (j < nins s)%nat -> t_kill (inst s j) = false -> lookup (t_name (inst s j)) (s_map s) = Some j.

Record sinv (s : sched) : Prop := {
  si_j : jall s;
  si_fixed : s_fixed s = true;
  si_tick : 0 < s_tick s;
  si_now : 0 <= s_now s;
  si_map : map_sound s;
  si_live : live_mapped s;
  si_reg : forall j, t_reg (inst s j) <= s_now s
}.

Lemma lookup_in_names n (m : list (nat * nat)) i : lookup n m = Some i -> existsb (Nat.eqb n) (map fst m) = true.
Proof.
  induction m as [|[k i0] r IH]; cbn [lookup map fst existsb]; [discriminate|].
  destruct (Nat.eqb_spec k n) as [->|Hne]; intros H.
  - rewrite Nat.eqb_refl. reflexivity.
  - rewrite IH by auto. apply orb_true_r.
Qed.

Lemma existsb_in_names n (m : list (nat * nat)) : existsb (Nat.eqb n) (map fst m) = true -> In n (map fst m).
Proof.
  intros H. apply existsb_exists in H as (x & Hin & Heq). apply Nat.eqb_eq in Heq. subst. auto.
Qed.

Lemma unregister_sinv n s : sinv s -> sinv (fst (unregister n s)).
Proof.
  intros [J Fx Tk Nw M L R].
  pose proof (unregister_fields n s) as HF. cbv zeta in HF. destruct HF as (N1 & T1 & F1 & Nw1 & St1).
  pose proof (unregister_no_crash n s J) as Hc.
  pose proof (unregister_map n s) as HM. rewrite Hc in HM.
  split; try congruence.
  - intros j. apply unregister_jinv; auto.
  - intros n' i Hl. rewrite HM, lookup_remove in Hl. destruct (Nat.eqb_spec n' n); [discriminate|].
    destruct (M n' i Hl) as [Hi Hn]. split; [congruence|].
    destruct (unregister_evolves n s i) as [(Hs & _) _ _]. congruence.
  - intros j Hj Hk. rewrite N1 in Hj.
    destruct (unregister_evolves n s j) as [(Hs & _) _ K].
    assert (Hk0 : t_kill (inst s j) = false).
    { destruct (t_kill (inst s j)) eqn:E; auto. destruct (K eq_refl). congruence. }
    specialize (L j Hj Hk0). rewrite <- Hs. rewrite HM, lookup_remove.
    destruct (Nat.eqb_spec (t_name (inst s j)) n) as [He|Hne]; auto.
    exfalso. rewrite unregister_inst in Hk. rewrite He in L. rewrite L, Nat.eqb_refl in Hk.
    rewrite close_task_kill in Hk. discriminate.
  - intros j. destruct (unregister_evolves n s j) as [(_ & _ & _ & _ & _ & _ & Hr & _) _ _]. rewrite <- Hr, Nw1. apply R.
Qed.

Lemma close_all_sinv s : sinv s ->
  let s' := fst (close_all (s_map s) s) in
  sinv s' /\ snd (close_all (s_map s) s) = false /\ (forall n, lookup n (s_map s') = None) /\
  (forall j, (j < nins s)%nat -> t_kill (inst s' j) = true) /\
  nins s' = nins s /\ s_now s' = s_now s /\ s_stopped s' = s_stopped s /\ s_tick s' = s_tick s /\
  (forall j, evolves (inst s j) (inst s' j)).
Proof.
  intros [J Fx Tk Nw M L R]. cbv zeta.
  destruct (close_all_spec (s_map s) s J) as (C & J2 & N & T & F & Nw2 & St & Ev & Lk & Kl).
  assert (HL : forall n, lookup n (s_map (fst (close_all (s_map s) s))) = None).
  { intros n. rewrite Lk. destruct (existsb (Nat.eqb n) (map fst (s_map s))) eqn:E; auto.
    destruct (lookup n (s_map s)) eqn:E2; auto. apply lookup_in_names in E2. congruence. }
  assert (HK : forall j, (j < nins s)%nat -> t_kill (inst (fst (close_all (s_map s) s)) j) = true).
  { intros j Hj. destruct (t_kill (inst s j)) eqn:Hk.
    - destruct (Ev j) as [_ _ K]. apply K; auto.
    - pose proof (L j Hj Hk) as Hl. eapply Kl; eauto.
      apply existsb_in_names. eapply lookup_in_names; eauto. }
  splits; auto.
  split.
  - exact J2.
  - congruence.
  - congruence.
  - congruence.
  - intros n i Hl. rewrite HL in Hl. discriminate.
  - intros j Hj Hk. rewrite N in Hj. rewrite HK in Hk by auto. discriminate.
  - intros j. destruct (Ev j) as [(_ & _ & _ & _ & _ & _ & Hr & _) _ _]. rewrite <- Hr, Nw2. apply R.
Qed.

(* ------------------------------------------------------------------ register *)

Definition clamp (cr : option Z) (x tk : Z) : Z :=
  match cr with Some _ => x | None => if x <? tk then tk else x end.

Definition new_task (s : sched) (n : nat) (sp : spec) (re : list (Z * reaction)) : task :=
  let '(a, iv, cr, total, imm) := spec_params (s_now s) sp in
  let a' := clamp cr a (s_tick s) in
  let iv' := clamp cr iv (s_tick s) in
  {| t_name := n; t_after := a'; t_interval := iv'; t_cron := cr; t_total := total;
     t_trigger := match cr with Some _ => 0 | None => 1 end; t_kill := false; t_timer := s_fixed s;
     t_pend := Some (match cr with Some k => to_ms (cron_next k (s_now s)) | None => to_ms (s_now s + a') end);
     t_react := re; t_fired := 0; t_reg := s_now s |}.

Lemma register_ok n sp re s : snd (unregister n s) = false ->
  let s1 := fst (unregister n s) in
  fst (fst (register n sp re s)) =
    with_map (with_insts s1 (s_insts s1 ++ [new_task s n sp re])) ((n, nins s) :: remove n (s_map s1)) /\
  snd (fst (register n sp re s)) = false /\
  (forall e, In e (snd (register n sp re s)) -> e_ord e = 0 /\ e_crash e = false).
Proof.
  intros Hc. cbv zeta. unfold register, new_task, clamp, nins.
  destruct (spec_params (s_now s) sp) as [[[[a iv] cr] total] imm].
  destruct (unregister n s) as [s1 c]. cbn [fst snd] in *. subst c.
  cbn [fst snd]. splits; auto.
  intros e Hin. apply in_app_or in Hin.
  destruct Hin as [Hin|Hin];
    [destruct (imm && is_day sp) | destruct (imm && negb (is_day sp))]; cbn in Hin;
    try contradiction; destruct Hin as [<-|[]]; cbn; auto.
Qed.

Lemma spec_params_facts now sp a iv cr total imm :
  spec_params now sp = (a, iv, cr, total, imm) ->
  (cr <> None -> a = 0 /\ iv = 0 /\ total = 0).
Proof.
  destruct sp; cbn; intros H; inversion H; subst; intros Hn; try congruence. auto.
Qed.

Lemma new_task_jinv s n sp re : s_fixed s = true -> 0 < s_tick s -> 0 <= s_now s -> jinv (new_task s n sp re).
Proof.
  intros Fx Tk Nw. unfold new_task.
  destruct (spec_params (s_now s) sp) as [[[[a iv] cr] total] imm] eqn:Hsp.
  pose proof (spec_params_facts _ _ _ _ _ _ _ Hsp) as Hcr.
  unfold jinv, e1, clamp; cbn. split; [lia|]. split.
  - intros ->. split; [lia|]. split; [lia|]. intros _. splits; try lia.
  - split; [auto|]. split; [lia|]. destruct cr as [k|].
    + destruct Hcr as (Ha & Hi & Ht); [congruence|]. subst. splits; try lia; intros _; auto.
    + splits.
      * destruct (Z.ltb_spec a (s_tick s)); lia.
      * destruct (Z.ltb_spec iv (s_tick s)); lia.
      * intros HH; congruence.
Qed.

Lemma inst_app s1 t m j :
  inst (with_map (with_insts s1 (s_insts s1 ++ [t])) m) j =
  if Nat.ltb j (nins s1) then inst s1 j else if Nat.eqb j (nins s1) then t else dummy_task.
Proof.
  unfold inst, with_map, with_insts, nins; cbn [s_insts].
  destruct (Nat.ltb_spec j (length (s_insts s1))) as [Hlt|Hge].
  - apply app_nth1; auto.
  - rewrite app_nth2 by lia. destruct (Nat.eqb_spec j (length (s_insts s1))) as [->|Hne].
    + rewrite Nat.sub_diag. reflexivity.
    + destruct (j - length (s_insts s1))%nat as [|[|k]] eqn:E; try lia; reflexivity.
Qed.

Lemma register_spec n sp re s : sinv s ->
  let s' := fst (fst (register n sp re s)) in
  sinv s' /\ snd (fst (register n sp re s)) = false /\
  nins s' = S (nins s) /\ s_now s' = s_now s /\ s_stopped s' = s_stopped s /\ s_tick s' = s_tick s /\
  inst s' (nins s) = new_task s n sp re /\
  (forall j, (j < nins s)%nat -> evolves (inst s j) (inst s' j)) /\
  (forall j, (j < nins s)%nat -> lookup n (s_map s) = Some j -> t_kill (inst s' j) = true) /\
  lookup n (s_map s') = Some (nins s) /\
  (forall e, In e (snd (register n sp re s)) -> e_ord e = 0 /\ e_crash e = false).
Proof.
  intros I. pose proof I as [J Fx Tk Nw M L R].
  pose proof (unregister_no_crash n s J) as Hc.
  destruct (register_ok n sp re s Hc) as (Hs & Hcr & Hev). cbv zeta in *. rewrite Hs.
  pose proof (unregister_sinv n s I) as [J1 Fx1 Tk1 Nw1 M1 L1 R1].
  pose proof (unregister_fields n s) as HF. cbv zeta in HF. destruct HF as (N1 & T1 & F1 & Nw1' & St1).
  pose proof (unregister_map n s) as HM. rewrite Hc in HM.
  set (s1 := fst (unregister n s)) in *.
  set (t := new_task s n sp re).
  assert (Hinst : forall j, (j < nins s)%nat ->
            inst (with_map (with_insts s1 (s_insts s1 ++ [t])) ((n, nins s) :: remove n (s_map s1))) j = inst s1 j).
  { intros j Hj. rewrite inst_app. rewrite N1. destruct (Nat.ltb_spec j (nins s)); auto; lia. }
  assert (Hnew : inst (with_map (with_insts s1 (s_insts s1 ++ [t])) ((n, nins s) :: remove n (s_map s1))) (nins s) = t).
  { rewrite inst_app, N1. destruct (Nat.ltb_spec (nins s) (nins s)); [lia|]. rewrite Nat.eqb_refl. reflexivity. }
  assert (Hn : nins (with_map (with_insts s1 (s_insts s1 ++ [t])) ((n, nins s) :: remove n (s_map s1))) = S (nins s)).
  { unfold nins, with_map, with_insts; cbn [s_insts]. rewrite app_length. cbn. fold (nins s1). rewrite N1. unfold nins. lia. }
  assert (Ht : jinv t) by (apply new_task_jinv; auto).
  assert (Hname : t_name t = n /\ t_reg t = s_now s /\ t_kill t = false).
  { unfold t, new_task. destruct (spec_params (s_now s) sp) as [[[[a iv] cr] total] imm]. cbn. auto. }
  destruct Hname as (Hname & Hreg & Hkill).
  splits; auto.
  - split.
    + intros j. rewrite inst_app, N1. destruct (Nat.ltb_spec j (nins s)); [apply J1|].
      destruct (Nat.eqb j (nins s)); [exact Ht | apply jinv_dummy].
    + cbn. congruence.
    + cbn. congruence.
    + cbn. congruence.
    + intros n' i Hl. cbn [s_map with_map lookup] in Hl. rewrite Hn.
      destruct (Nat.eqb_spec n n') as [<-|Hne].
      * inversion Hl; subst i. split; [lia|]. rewrite Hnew. exact Hname.
      * rewrite lookup_remove in Hl. destruct (Nat.eqb n' n); [discriminate|].
        destruct (M1 n' i Hl) as [Hi Hnm]. rewrite N1 in Hi. split; [lia|]. rewrite Hinst by auto. exact Hnm.
    + intros j Hj Hk. rewrite Hn in Hj. cbn [s_map with_map lookup].
      destruct (Nat.eq_dec j (nins s)) as [->|Hne].
      * rewrite Hnew, Hname, Nat.eqb_refl. reflexivity.
      * assert (Hj' : (j < nins s)%nat) by lia. rewrite Hinst in * by auto.
        pose proof (L1 j) as L1j. rewrite N1 in L1j. specialize (L1j Hj' Hk).
        rewrite HM, lookup_remove in L1j.
        destruct (Nat.eqb_spec (t_name (inst s1 j)) n) as [He|Hnn]; [discriminate|].
        destruct (Nat.eqb_spec n (t_name (inst s1 j))); [congruence|].
        rewrite lookup_remove. destruct (Nat.eqb_spec (t_name (inst s1 j)) n); [congruence|].
        rewrite HM, lookup_remove. destruct (Nat.eqb_spec (t_name (inst s1 j)) n); [congruence|]. exact L1j.
    + intros j. rewrite inst_app, N1. cbn [s_now with_map with_insts].
      destruct (Nat.ltb_spec j (nins s)); [apply R1|].
      destruct (Nat.eqb j (nins s)); [rewrite Hreg; lia | cbn; lia].
  - intros j Hj. rewrite Hinst by auto. apply unregister_evolves.
  - intros j Hj Hl. rewrite Hinst by auto. unfold s1. rewrite unregister_inst, Hl, Nat.eqb_refl. apply close_task_kill.
  - cbn [s_map with_map lookup]. rewrite Nat.eqb_refl. reflexivity.
Qed.

(* ------------------------------------------------------------------ expiry of a timer *)

Definition next_task (t : task) (e : Z) : task :=
  let fin := t_kill t || ((0 <? t_total t) && (t_total t <=? t_trigger t)) in
  match t_cron t with
  | Some k => set_pend t (Some (to_ms (cron_next k (e * MS))))
  | None => if fin then set_pend t None
            else set_trigger (set_pend t (Some (to_ms (e * MS + (if t_trigger t =? 0 then t_after t else t_interval t)))))
                             (t_trigger t + 1)
  end.

Lemma MS_pos : 0 < MS. Proof. reflexivity. Qed.

Lemma to_ms_nonneg x : 0 <= x -> 0 <= to_ms x.
Proof. intros H. unfold to_ms. apply Z.quot_pos; [auto | pose proof MS_pos; lia]. Qed.

Lemma to_ms_add e iv : 0 <= e -> 0 <= iv -> to_ms (e * MS + iv) = e + Z.quot iv MS.
Proof.
  intros He Hi. unfold to_ms. pose proof MS_pos.
  rewrite !Z.quot_div_nonneg by nia.
  rewrite Z.add_comm. rewrite Z.div_add by lia. lia.
Qed.

Lemma e1_nonneg t : jinv t -> 0 <= e1 t.
Proof. intros (_ & _ & _ & R & A & _). unfold e1. apply to_ms_nonneg. lia. Qed.

Lemma iv_ms_nonneg t : jinv t -> 0 <= iv_ms t.
Proof. intros (_ & _ & _ & _ & _ & I & _). unfold iv_ms. apply Z.quot_pos; [auto | pose proof MS_pos; lia]. Qed.

(* the task after Next() and, if the callback runs, after the callback's bookkeeping *)
Definition fired_task (t : task) (e : Z) : task :=
  let t1 := next_task t e in
  if t_kill t1 then t1 else set_fired t1 (t_fired t1 + 1).

Lemma next_task_static t e : same_static t (next_task t e).
Proof.
  unfold next_task. destruct (t_cron t); [repeat split|].
  destruct (t_kill t || _); repeat split.
Qed.

Lemma next_task_kill t e : t_kill (next_task t e) = t_kill t.
Proof.
  unfold next_task. destruct (t_cron t); [reflexivity|].
  destruct (t_kill t || _); reflexivity.
Qed.

Lemma next_task_fired t e : t_fired (next_task t e) = t_fired t.
Proof.
  unfold next_task. destruct (t_cron t); [reflexivity|].
  destruct (t_kill t || _); reflexivity.
Qed.

Lemma fired_task_evolves t e : evolves t (fired_task t e).
Proof.
  unfold fired_task. pose proof (next_task_static t e) as S. pose proof (next_task_kill t e) as K.
  pose proof (next_task_fired t e) as F.
  destruct (t_kill (next_task t e)) eqn:Hk.
  - split; [auto | lia | intros _; split; congruence].
  - split.
    + destruct S as (? & ? & ? & ? & ? & ? & ? & ?). repeat split; cbn; auto.
    + cbn. lia.
    + intros Hk'. congruence.
Qed.

Lemma fired_task_jinv t e : jinv t -> t_pend t = Some e -> jinv (fired_task t e).
Proof.
  intros J Hp. pose proof (e1_nonneg t J) as He1. pose proof (iv_ms_nonneg t J) as Hiv.
  destruct J as (F0 & Hn & Htm & R & A & I & C).
  unfold fired_task, next_task. destruct (t_cron t) as [k|] eqn:Hcr.
  - (* cron *)
    destruct (C ltac:(congruence)) as (Ctr & Ctot).
    tsimpl. destruct (t_kill t) eqn:Hk; unfold jinv; tsimpl; rewrite ?Hcr;
      (split; [lia|]); (split; [intros; discriminate|]); splits; auto; try lia.
  - specialize (Hn eq_refl). destruct Hn as (H1 & H2 & H3).
    destruct (t_kill t) eqn:Hk; cbn [orb].
    + (* killed: no execution *)
      tsimpl. rewrite Hk. unfold jinv; tsimpl. rewrite ?Hcr, ?Hk. split; [lia|]. split.
      * intros _. splits; auto. intros; discriminate.
      * splits; auto.
    + specialize (H3 eq_refl). rewrite Hp in H3. destruct H3 as (T1 & Fd & Ee).
      destruct ((0 <? t_total t) && (t_total t <=? t_trigger t)) eqn:Hfin.
      * (* last execution *)
        apply andb_true_iff in Hfin as [Ha Hb].
        tsimpl. rewrite Hk. unfold jinv; tsimpl. rewrite ?Hcr, ?Hk.
        split; [lia|]. split.
        -- intros _. split; [lia|]. split; [auto|]. intros _. splits; lia.
        -- splits; auto.
      * tsimpl. rewrite Hk. unfold jinv, e1, iv_ms; tsimpl. rewrite ?Hcr, ?Hk.
        assert (Htr : (t_trigger t =? 0) = false) by lia. rewrite Htr.
        split; [lia|]. split.
        -- intros _. split; [lia|]. split.
           ++ intros Hpos. apply andb_false_iff in Hfin. destruct Hfin; lia.
           ++ intros _. split; [lia|]. split; [lia|].
              rewrite to_ms_add; [| nia | lia]. fold (iv_ms t). fold (e1 t). unfold e1, iv_ms in Ee. fold (e1 t) in Ee. fold (iv_ms t) in Ee. nia.
        -- splits; auto. intros HH; congruence.
Qed.

(* ------------------------------------------------------------------ "closed or untouched" *)

Definition cos (t t' : task) : Prop := t' = t \/ t' = fst (close_task t).

Lemma close_task_idem t : fst (close_task (fst (close_task t))) = fst (close_task t).
Proof.
  pose proof (close_task_kill t) as H. unfold close_task at 1. rewrite H. reflexivity.
Qed.

Lemma cos_refl t : cos t t. Proof. left; reflexivity. Qed.
Lemma cos_trans a b c : cos a b -> cos b c -> cos a c.
Proof.
  intros [->| ->] [->| ->]; unfold cos; auto. right. apply close_task_idem.
Qed.
Lemma cos_evolves t t' : cos t t' -> evolves t t'.
Proof. intros [->| ->]; [apply evolves_refl | apply close_task_evolves]. Qed.
Lemma cos_fired t t' : cos t t' -> t_fired t' = t_fired t.
Proof.
  intros [->| ->]; auto. unfold close_task. destruct (t_kill t); auto.
  destruct (needs_stop t); [destruct (t_timer t)|]; reflexivity.
Qed.

Lemma unregister_cos n s j : cos (inst s j) (inst (fst (unregister n s)) j).
Proof.
  rewrite unregister_inst. destruct (lookup n (s_map s)); [|apply cos_refl].
  destruct (Nat.eqb j n0); [right; reflexivity | apply cos_refl].
Qed.

Lemma close_all_cos m : forall s j, jall s -> cos (inst s j) (inst (fst (close_all m s)) j).
Proof.
  induction m as [|[n i0] r IH]; intros s j J; cbn [close_all]; [apply cos_refl|].
  pose proof (unregister_no_crash n s J) as Hc. pose proof (unregister_jinv n s J) as J1.
  pose proof (unregister_cos n s j) as C1.
  destruct (unregister n s) as [s1 c]. cbn [fst snd] in *. subst c.
  eapply cos_trans; [exact C1 | apply IH; exact J1].
Qed.

Lemma register_cos n sp re s j : sinv s -> (j < nins s)%nat ->
  cos (inst s j) (inst (fst (fst (register n sp re s))) j).
Proof.
  intros I Hj. pose proof I as [J _ _ _ _ _ _].
  pose proof (unregister_no_crash n s J) as Hc.
  destruct (register_ok n sp re s Hc) as (Hs & _ & _). cbv zeta in Hs. rewrite Hs.
  rewrite inst_app. pose proof (unregister_fields n s) as HF. cbv zeta in HF. destruct HF as (N1 & _).
  rewrite N1. destruct (Nat.ltb_spec j (nins s)); [|lia]. apply unregister_cos.
Qed.

(* ------------------------------------------------------------------ fire *)

Lemma upd_upd {A} i (a b : A) l : upd i b (upd i a l) = upd i b l.
Proof. revert i; induction l as [|h t IH]; intros [|i]; cbn; auto. f_equal; auto. Qed.

Lemma set_inst_twice s i a b : set_inst (set_inst s i a) i b = set_inst s i b.
Proof. unfold set_inst, with_insts; cbn. rewrite upd_upd. reflexivity. Qed.

Lemma find_react_none_ok : True. Proof. exact I. Qed.

Definition after_next (s : sched) (i : nat) (e : Z) : sched :=
  set_inst (with_now s (Z.max (s_now s) (trunc e (tick_ms s) * MS))) i (fired_task (inst s i) e).

Lemma after_next_sinv s i e : sinv s -> t_pend (inst s i) = Some e -> sinv (after_next s i e).
Proof.
  intros [J Fx Tk Nw M L R] Hp. unfold after_next.
  set (s0 := with_now s (Z.max (s_now s) (trunc e (tick_ms s) * MS))).
  assert (Hi : forall j, inst s0 j = inst s j) by reflexivity.
  assert (Hn : nins s0 = nins s) by reflexivity.
  pose proof (fired_task_evolves (inst s i) e) as Ev.
  split.
  - intros j. rewrite inst_set_inst. destruct (Nat.eqb j i && Nat.ltb i (nins s0)); [|apply J].
    apply fired_task_jinv; auto.
  - exact Fx.
  - exact Tk.
  - cbn. lia.
  - intros n k Hl. cbn [set_inst with_insts s_map] in Hl. rewrite nins_set_inst, Hn.
    destruct (M n k Hl) as [Hk Hnm]. split; auto.
    rewrite inst_set_inst. destruct (Nat.eqb_spec k i) as [->|]; cbn [andb]; [|rewrite Hi; auto].
    destruct (Nat.ltb i (nins s0)); rewrite ?Hi; auto.
    destruct Ev as [(Hs & _) _ _]. congruence.
  - intros j Hj Hk. rewrite nins_set_inst, Hn in Hj. cbn [set_inst with_insts s_map].
    rewrite inst_set_inst in *. destruct (Nat.eqb_spec j i) as [->|]; cbn [andb] in *; [|rewrite Hi in *; auto].
    destruct (Nat.ltb i (nins s0)); rewrite ?Hi in *; auto.
    destruct Ev as [(Hs & _) _ K]. rewrite <- Hs. apply L; auto.
    destruct (t_kill (inst s i)) eqn:E; auto. destruct (K eq_refl). congruence.
  - intros j. rewrite inst_set_inst. cbn [set_inst with_insts s_now].
    destruct (Nat.eqb_spec j i) as [->|]; cbn [andb]; [|rewrite Hi; specialize (R j); cbn; lia].
    destruct (Nat.ltb i (nins s0)); rewrite ?Hi; [|specialize (R i); cbn; lia].
    destruct Ev as [(_ & _ & _ & _ & _ & _ & Hr & _) _ _]. rewrite <- Hr. specialize (R i); cbn; lia.
Qed.

Lemma fire_eq s i e : sinv s -> (i < nins s)%nat -> t_pend (inst s i) = Some e ->
  let t := inst s i in
  let s3 := after_next s i e in
  fire s i e =
  if t_kill t then (s3, [])
  else
    let k := t_fired t + 1 in
    let '(s4, c1) := match find_react k (t_react t) with
                     | None => (s3, false)
                     | Some RUnreg => unregister (t_name t) s3
                     | Some (RRereg sp) => let '(s', c, _) := register (t_name t) sp [] s3 in (s', c)
                     end in
    (s4, [{| e_ms := trunc e (tick_ms s); e_inst := i; e_ord := k; e_crash := c1 |}]).
Proof.
  intros [J Fx Tk Nw M L R] Hi Hp. cbv zeta. unfold fire, after_next, fired_task.
  fold (next_task (inst s i) e).
  pose proof (next_task_kill (inst s i) e) as Hk. pose proof (next_task_static (inst s i) e) as Hs.
  pose proof (next_task_fired (inst s i) e) as Hf.
  set (s0 := with_now s (Z.max (s_now s) (trunc e (tick_ms s) * MS))).
  change (tick_ms s0) with (tick_ms s).
  rewrite Hk. destruct (t_kill (inst s i)) eqn:Hkill; [reflexivity|].
  (* the unreachable branch *)
  assert (Hdead : (0 <? t_total (next_task (inst s i) e)) && (t_total (next_task (inst s i) e) <? t_trigger (next_task (inst s i) e)) = false).
  { pose proof (fired_task_jinv (inst s i) e (J i) Hp) as J2. unfold fired_task in J2. rewrite Hk in J2.
    destruct J2 as (_ & Hn & _ & _ & _ & _ & C). tsimpl_in Hn. tsimpl_in C.
    destruct (t_cron (next_task (inst s i) e)) eqn:Hc.
    - destruct C as (_ & ->); [congruence|]. reflexivity.
    - destruct (Hn eq_refl) as (_ & H2 & _). destruct (Z.ltb_spec 0 (t_total (next_task (inst s i) e))); cbn [andb]; auto.
      specialize (H2 H). lia. }
  rewrite Hdead.
  assert (Hi0 : inst (set_inst s0 i (next_task (inst s i) e)) i = next_task (inst s i) e).
  { rewrite inst_set_inst, Nat.eqb_refl. cbn [andb]. destruct (Nat.ltb_spec i (nins s0)); auto. unfold s0, nins in *; cbn in *; lia. }
  rewrite Hi0, set_inst_twice.
  destruct Hs as (Hname & _ & _ & _ & _ & Hre & _).
  rewrite <- Hname, <- Hre, Hf. cbn [orb].
  destruct (find_react (t_fired (inst s i) + 1) (t_react (inst s i))) as [[|sp]|]; try reflexivity.
Qed.

(* ------------------------------------------------------------------ summary of a transition *)

Fixpoint count_ev (j : nat) (evs : list event) : Z :=
  match evs with
  | [] => 0
  | e :: r => (if Nat.eqb (e_inst e) j && (0 <? e_ord e) then 1 else 0) + count_ev j r
  end.

Lemma count_ev_app j a b : count_ev j (a ++ b) = count_ev j a + count_ev j b.
Proof. induction a as [|e r IH]; cbn [count_ev app]; lia. Qed.

Lemma count_ev_nonneg j a : 0 <= count_ev j a.
Proof. induction a as [|e r IH]; cbn [count_ev]; [lia|]. destruct (_ && _); lia. Qed.

(* an execution recorded as event [e] is the [e_ord e]-th one of its instance and happened in the bucket of the
   instance's first expiration plus (e_ord - 1) intervals *)
Definition event_ok (s : sched) (e : event) : Prop :=
  let t := inst s (e_inst e) in
  (e_inst e < nins s)%nat /\
  (t_cron t = None -> e_ms e = trunc (e1 t + (e_ord e - 1) * iv_ms t) (tick_ms s)) /\
  e_ord e <= t_fired t /\ (0 < t_total t -> t_cron t = None -> e_ord e <= t_total t).

Record trans (cl : bool) (s s' : sched) (evs : list event) : Prop := {
  tr_inv : sinv s';
  tr_n : (nins s <= nins s')%nat;
  tr_tick : s_tick s' = s_tick s;
  tr_now : s_now s <= s_now s';
  tr_stop : s_stopped s' = s_stopped s || cl;
  tr_ev : forall j, (j < nins s)%nat -> evolves (inst s j) (inst s' j);
  tr_count : forall j, count_ev j evs = t_fired (inst s' j) - t_fired (inst s j);
  tr_crash : forall e, In e evs -> e_crash e = false;
  tr_ok : forall e, In e evs -> 0 < e_ord e ->
            event_ok s' e /\ t_fired (inst s (e_inst e)) < e_ord e /\ e_ms e * MS <= s_now s'
}.

Lemma event_ok_mono s s' e : event_ok s e -> s_tick s' = s_tick s -> (nins s <= nins s')%nat ->
  (forall j, (j < nins s)%nat -> evolves (inst s j) (inst s' j)) -> event_ok s' e.
Proof.
  intros (Hi & Hm & Hf & Ht) Tk Hn Ev. destruct (Ev _ Hi) as [(S1 & S2 & S3 & S4 & S5 & S6 & S7 & S8) F K].
  unfold event_ok, e1, iv_ms, tick_ms in *. rewrite <- S2, <- S3, <- S4, <- S5, <- S7, Tk.
  splits; auto; lia.
Qed.

Lemma trans_refl s : sinv s -> trans false s s [].
Proof.
  intros I. split; auto; try lia.
  - intros; apply evolves_refl.
  - intros j. cbn. lia.
  - intros e [].
  - intros e [].
Qed.

Lemma trans_trans c1 c2 s s1 s2 a b : trans c1 s s1 a -> trans c2 s1 s2 b -> trans (c1 || c2) s s2 (a ++ b).
Proof.
  intros [I1 N1 T1 W1 S1 E1 C1 X1 O1] [I2 N2 T2 W2 S2 E2 C2 X2 O2]. split; auto; try lia; try congruence.
  - intros j Hj. eapply evolves_trans; [apply E1; auto | apply E2; lia].
  - intros j. rewrite count_ev_app, C1, C2. lia.
  - intros e Hin. apply in_app_or in Hin as [H|H]; auto.
  - intros e Hin Ho. apply in_app_or in Hin as [H|H].
    + destruct (O1 e H Ho) as (Ok & Lt & Nw). splits; auto; [|lia].
      eapply event_ok_mono; eauto.
    + destruct (O2 e H Ho) as (Ok & Lt & Nw). splits; auto.
      destruct (Nat.lt_ge_cases (e_inst e) (nins s)) as [Hlt|Hge].
      * destruct (E1 _ Hlt) as [_ F _]. lia.
      * rewrite (inst_out s) by lia. cbn. destruct I1 as [J _ _ _ _ _ _]. destruct (J (e_inst e)) as (F0 & _). lia.
Qed.

Lemma count_ev_ord0 j evs : (forall e, In e evs -> e_ord e = 0) -> count_ev j evs = 0.
Proof.
  induction evs as [|e r IH]; intros H; cbn [count_ev]; auto.
  rewrite (H e) by (left; auto). rewrite IH by (intros; apply H; right; auto).
  rewrite andb_false_r. reflexivity.
Qed.

Lemma trans_unregister n s : sinv s -> trans false s (fst (unregister n s)) [].
Proof.
  intros I. pose proof (unregister_fields n s) as HF. cbv zeta in HF. destruct HF as (N1 & T1 & F1 & Nw1 & St1).
  split; try lia; try congruence.
  - apply unregister_sinv; auto.
  - intros; apply unregister_evolves.
  - intros j. rewrite (cos_fired _ _ (unregister_cos n s j)). cbn. lia.
  - intros e [].
  - intros e [].
Qed.

Lemma trans_close_all s : sinv s -> trans false s (fst (close_all (s_map s) s)) [].
Proof.
  intros I. destruct (close_all_sinv s I) as (I2 & C & Lk & Kl & N & Nw & St & Tk & Ev).
  split; try lia; try congruence; auto.
  - intros j. destruct I as [J _ _ _ _ _ _]. rewrite (cos_fired _ _ (close_all_cos (s_map s) s j J)). cbn. lia.
  - intros e [].
  - intros e [].
Qed.

Lemma new_task_fired s n sp re : t_fired (new_task s n sp re) = 0.
Proof. unfold new_task. destruct (spec_params (s_now s) sp) as [[[[a iv] cr] total] imm]. reflexivity. Qed.

Lemma trans_register n sp re s : sinv s ->
  trans false s (fst (fst (register n sp re s))) (snd (register n sp re s)) /\ snd (fst (register n sp re s)) = false.
Proof.
  intros I. destruct (register_spec n sp re s I) as (I2 & C & N & Nw & St & Tk & Hnew & Ev & Kl & Lk & Hev).
  cbv zeta in *. split; auto. split; try lia; try congruence; auto.
  - intros j. rewrite count_ev_ord0 by (intros e He; apply Hev; auto).
    destruct (Nat.lt_ge_cases j (nins s)) as [Hlt|Hge].
    + rewrite (cos_fired _ _ (register_cos n sp re s j I Hlt)). lia.
    + rewrite (inst_out s) by lia. destruct (Nat.eq_dec j (nins s)) as [->|Hne].
      * rewrite Hnew, new_task_fired. cbn. lia.
      * rewrite inst_out by lia. lia.
  - intros e He. apply Hev; auto.
  - intros e He Ho. destruct (Hev e He). lia.
Qed.

Lemma trans_with_now s T : sinv s -> s_now s <= T -> trans false s (with_now s T) [].
Proof.
  intros [J Fx Tk Nw M L R] HT.
  assert (Hi : forall j, inst (with_now s T) j = inst s j) by reflexivity.
  split.
  - split; auto.
    + cbn [with_now s_now]. lia.
    + intros j. rewrite Hi. cbn [with_now s_now]. specialize (R j). lia.
  - unfold nins; cbn. lia.
  - reflexivity.
  - cbn [with_now s_now]. lia.
  - cbn. rewrite orb_false_r. reflexivity.
  - intros; rewrite Hi; apply evolves_refl.
  - intros j. rewrite Hi. cbn [count_ev]. lia.
  - intros e [].
  - intros e [].
Qed.

Lemma trans_drop_ord0 cl s s' evs : trans cl s s' evs -> (forall e, In e evs -> e_ord e = 0) -> trans cl s s' [].
Proof.
  intros [I N T W S E C X O] H0. split; auto.
  - intros j. rewrite <- C. cbn [count_ev]. symmetry. apply count_ev_ord0; auto.
  - intros e [].
  - intros e [].
Qed.

Lemma inst_after_next s i e j : (i < nins s)%nat ->
  inst (after_next s i e) j = if Nat.eqb j i then fired_task (inst s i) e else inst s j.
Proof.
  intros Hi. unfold after_next. rewrite inst_set_inst.
  destruct (Nat.eqb j i); cbn [andb]; auto.
  destruct (Nat.ltb_spec i (nins (with_now s (Z.max (s_now s) (trunc e (tick_ms s) * MS))))); auto.
  unfold nins in *; cbn in *; lia.
Qed.

Lemma trans_after_next s i e : sinv s -> (i < nins s)%nat -> t_pend (inst s i) = Some e ->
  let t := inst s i in
  trans false s (after_next s i e)
    (if t_kill t then [] else [{| e_ms := trunc e (tick_ms s); e_inst := i; e_ord := t_fired t + 1; e_crash := false |}]).
Proof.
  intros I Hi Hp. cbv zeta. pose proof I as [J Fx Tk Nw M L R].
  pose proof (fired_task_evolves (inst s i) e) as Ev.
  pose proof (next_task_kill (inst s i) e) as Hk. pose proof (next_task_fired (inst s i) e) as Hf.
  assert (Hn : nins (after_next s i e) = nins s).
  { unfold after_next. rewrite nins_set_inst. reflexivity. }
  assert (Hnow : s_now (after_next s i e) = Z.max (s_now s) (trunc e (tick_ms s) * MS)) by reflexivity.
  assert (Htk : s_tick (after_next s i e) = s_tick s) by reflexivity.
  assert (Hfd : t_fired (fired_task (inst s i) e) = t_fired (inst s i) + (if t_kill (inst s i) then 0 else 1)).
  { unfold fired_task. rewrite Hk. destruct (t_kill (inst s i)); tsimpl; lia. }
  split.
  - apply after_next_sinv; auto.
  - lia.
  - exact Htk.
  - rewrite Hnow. lia.
  - rewrite orb_false_r. reflexivity.
  - intros j Hj. rewrite inst_after_next by auto. destruct (Nat.eqb_spec j i) as [->|]; [exact Ev | apply evolves_refl].
  - intros j. rewrite inst_after_next by auto.
    destruct (J i) as (F0 & _).
    destruct (Nat.eqb_spec j i) as [->|Hne].
    + rewrite Hfd. destruct (t_kill (inst s i)); cbn [count_ev e_inst e_ord]; [lia|].
      rewrite Nat.eqb_refl. cbn [andb]. destruct (Z.ltb_spec 0 (t_fired (inst s i) + 1)); lia.
    + destruct (t_kill (inst s i)); cbn [count_ev e_inst e_ord]; [lia|].
      destruct (Nat.eqb_spec i j); [congruence|]. cbn [andb]. lia.
  - intros ev Hin. destruct (t_kill (inst s i)); [destruct Hin|]. destruct Hin as [<-|[]]. reflexivity.
  - intros ev Hin Ho. destruct (t_kill (inst s i)) eqn:Hkill; [destruct Hin|]. destruct Hin as [<-|[]].
    cbn [e_inst e_ord e_ms] in *.
    destruct (J i) as (F0 & Hnc & _ & _ & _ & _ & _).
    splits.
    + unfold event_ok. cbn [e_inst e_ord e_ms]. rewrite inst_after_next, Nat.eqb_refl by auto.
      destruct Ev as [(S1 & S2 & S3 & S4 & S5 & S6 & S7 & S8) _ _].
      splits.
      * lia.
      * intros Hc. rewrite <- S4 in Hc. destruct (Hnc Hc) as (H1 & H2 & H3).
        specialize (H3 Hkill). rewrite Hp in H3. destruct H3 as (T1 & Fd & Ee).
        unfold e1, iv_ms, tick_ms. rewrite <- S2, <- S3, <- S7, Htk.
        fold (e1 (inst s i)). fold (iv_ms (inst s i)). fold (tick_ms s). f_equal. rewrite Ee. f_equal. f_equal. lia.
      * rewrite Hfd. lia.
      * intros Ht Hc. rewrite <- S4 in Hc. rewrite <- S5 in Ht. destruct (Hnc Hc) as (H1 & H2 & H3).
        specialize (H3 Hkill). rewrite Hp in H3. destruct H3 as (T1 & Fd & Ee). specialize (H2 Ht). lia.
    + lia.
    + rewrite Hnow. lia.
Qed.

Lemma trans_fire s i e : sinv s -> (i < nins s)%nat -> t_pend (inst s i) = Some e ->
  trans false s (fst (fire s i e)) (snd (fire s i e)).
Proof.
  intros I Hi Hp. rewrite (fire_eq s i e I Hi Hp). cbv zeta.
  pose proof (trans_after_next s i e I Hi Hp) as T3. cbv zeta in T3.
  destruct (t_kill (inst s i)) eqn:Hk; [exact T3|].
  pose proof (tr_inv _ _ _ _ T3) as I3.
  destruct (find_react (t_fired (inst s i) + 1) (t_react (inst s i))) as [[|sp]|].
  - pose proof (trans_unregister (t_name (inst s i)) _ I3) as T4.
    pose proof I3 as [J3 _ _ _ _ _ _].
    pose proof (unregister_no_crash (t_name (inst s i)) _ J3) as Hc.
    destruct (unregister (t_name (inst s i)) (after_next s i e)) as [s4 c1]. cbn [fst snd] in *. subst c1.
    pose proof (trans_trans _ _ _ _ _ _ _ T3 T4) as T. cbn [app orb] in T. exact T.
  - destruct (trans_register (t_name (inst s i)) sp [] _ I3) as [T4 Hc].
    pose proof (register_spec (t_name (inst s i)) sp [] _ I3) as RS. cbv zeta in RS.
    destruct RS as (_ & _ & _ & _ & _ & _ & _ & _ & _ & _ & Hev).
    destruct (register (t_name (inst s i)) sp [] (after_next s i e)) as [[s4 c1] evs]. cbn [fst snd] in *. subst c1.
    assert (T4' : trans false (after_next s i e) s4 []).
    { eapply trans_drop_ord0; [exact T4|]. intros e0 He0. apply Hev; auto. }
    pose proof (trans_trans _ _ _ _ _ _ _ T3 T4') as T. cbn [app orb] in T. exact T.
  - cbn [fst snd]. exact T3.
Qed.

(* ------------------------------------------------------------------ Advance *)

Lemma earliest_spec tk T : forall l k best i e,
  earliest tk T l k best = Some (i, e) ->
  best = Some (i, e) \/
  ((k <= i < k + length l)%nat /\ t_pend (nth (i - k) l dummy_task) = Some e /\ trunc e tk * MS <= T).
Proof.
  induction l as [|t r IH]; intros k best i e H; cbn [earliest] in H; [left; exact H|].
  apply IH in H. destruct H as [H|(Hr & Hp & Hd)].
  - destruct (t_pend t) as [e0|] eqn:Hp; [|left; exact H].
    destruct (Z.leb_spec (trunc e0 tk * MS) T) as [Hd|Hd]; [|left; exact H].
    destruct best as [[i1 e1']|].
    + destruct (trunc e0 tk <? trunc e1' tk); [|left; exact H].
      inversion H; subst. right. cbn [length]. rewrite Nat.sub_diag. cbn [nth]. splits; auto; lia.
    + inversion H; subst. right. cbn [length]. rewrite Nat.sub_diag. cbn [nth]. splits; auto; lia.
  - right. cbn [length]. splits; try lia; auto.
    replace (i - k)%nat with (S (i - S k)) by lia. cbn [nth]. exact Hp.
Qed.

Lemma earliest_none tk T : forall l k best,
  earliest tk T l k best = None ->
  best = None /\ forall t e, In t l -> t_pend t = Some e -> T < trunc e tk * MS.
Proof.
  induction l as [|t r IH]; intros k best H; cbn [earliest] in H; [split; auto; intros t e []|].
  apply IH in H. destruct H as [Hb Hr].
  destruct (t_pend t) as [e0|] eqn:Hp.
  - destruct (Z.leb_spec (trunc e0 tk * MS) T) as [Hd|Hd].
    + destruct best as [[i1 e1']|]; [destruct (trunc e0 tk <? trunc e1' tk)|]; discriminate.
    + split; auto. intros t' e' [<-|Hin] Hp'; [|eapply Hr; eauto]. rewrite Hp in Hp'. inversion Hp'; subst. lia.
  - split; auto. intros t' e' [<-|Hin] Hp'; [congruence | eapply Hr; eauto].
Qed.

(* nothing is due any more at instant T *)
Definition quiet (s : sched) (T : Z) : Prop :=
  s_stopped s = true \/ forall j e, (j < nins s)%nat -> t_pend (inst s j) = Some e -> T < trunc e (tick_ms s) * MS.

Lemma adv_step_trans s0 T st : 
  (let '(s, acc) := st in trans false s0 s acc) ->
  match adv_step T st with
  | inl (s', acc') => trans false s0 s' acc'
  | inr (s', acc') => trans false s0 s' acc' /\ quiet s' T
  end.
Proof.
  destruct st as [s acc]. intros Tr. unfold adv_step.
  destruct (s_stopped s) eqn:Hst; [split; auto; left; auto|].
  destruct (earliest (tick_ms s) T (s_insts s) 0 None) as [[i e]|] eqn:He.
  - apply earliest_spec in He. destruct He as [He|(Hr & Hp & Hd)]; [discriminate|].
    rewrite Nat.sub_0_r in Hp. fold (inst s i) in Hp.
    pose proof (trans_fire s i e (tr_inv _ _ _ _ Tr) ltac:(unfold nins; lia) Hp) as Tf.
    destruct (fire s i e) as [s' evs]. cbn [fst snd] in Tf.
    exact (trans_trans _ _ _ _ _ _ _ Tr Tf).
  - apply earliest_none in He. destruct He as [_ Hq]. split; auto. right.
    intros j e Hj Hp. eapply Hq; eauto. unfold inst in Hp. apply nth_In. exact Hj.
Qed.

Definition events_of (o : out) : list event := match o with ORes _ evs => evs | _ => [] end.
Definition out_ok (o : out) : Prop :=
  match o with
  | ORes c evs => c = false
  | ONames _ => True
  | OOutOfFuel => False
  | OBad => False
  end.

Lemma trans_with_stopped s : sinv s -> trans true s (with_stopped s) [].
Proof.
  intros [J Fx Tk Nw M L R].
  assert (Hi : forall j, inst (with_stopped s) j = inst s j) by reflexivity.
  split.
  - split; auto.
  - unfold nins; cbn. lia.
  - reflexivity.
  - cbn. lia.
  - cbn. rewrite orb_true_r. reflexivity.
  - intros; rewrite Hi; apply evolves_refl.
  - intros j. rewrite Hi. cbn [count_ev]. lia.
  - intros e [].
  - intros e [].
Qed.

Lemma step_trans s o : sinv s -> (o = Close -> s_stopped s = false) ->
  snd (step s o) <> OOutOfFuel ->
  out_ok (snd (step s o)) /\ trans (match o with Close => true | _ => false end) s (fst (step s o)) (events_of (snd (step s o))) /\
  (forall T, o = Advance T -> s_now s < T -> quiet (fst (step s o)) T /\ T <= s_now (fst (step s o))).
Proof.
  intros I Hcl Hfuel. destruct o as [n sp re|n| | | |T]; cbn [step] in *.
  - destruct (trans_register n sp re s I) as [Tr Hc].
    destruct (register n sp re s) as [[s' c] evs]. cbn [fst snd events_of out_ok] in *. subst c.
    split; [reflexivity|]. split; [exact Tr|]. intros T HT; discriminate.
  - pose proof (trans_unregister n s I) as Tr. pose proof I as [J _ _ _ _ _ _].
    pose proof (unregister_no_crash n s J) as Hc.
    destruct (unregister n s) as [s' c]. cbn [fst snd events_of out_ok] in *. subst c.
    split; [reflexivity|]. split; [exact Tr|]. intros T HT; discriminate.
  - pose proof (trans_close_all s I) as Tr. destruct (close_all_sinv s I) as (_ & Hc & _).
    destruct (close_all (s_map s) s) as [s' c]. cbn [fst snd events_of out_ok] in *. subst c.
    split; [reflexivity|]. split; [exact Tr|]. intros T HT; discriminate.
  - pose proof (trans_close_all s I) as Tr. destruct (close_all_sinv s I) as (_ & Hc & _ & _ & _ & _ & Hst & _).
    destruct (close_all (s_map s) s) as [s' c]. cbn [fst snd] in *. subst c.
    rewrite Hst, (Hcl eq_refl). cbn [fst snd events_of out_ok].
    split; [reflexivity|]. split; [|intros T HT; discriminate].
    pose proof (trans_trans _ _ _ _ _ _ _ Tr (trans_with_stopped s' (tr_inv _ _ _ _ Tr))) as T2. exact T2.
  - cbn [fst snd events_of out_ok]. split; [exact Logic.I|]. split; [apply trans_refl; auto | intros T HT; discriminate].
  - destruct (Z.leb_spec T (s_now s)) as [Hle|Hlt].
    + cbn [fst snd events_of out_ok]. split; [reflexivity|]. split; [apply trans_refl; auto|].
      intros T' HT HT'. inversion HT; subst T'. lia.
    + pose proof (iter_pos_inv
                    (fun st : sched * list event => let '(s1, acc) := st in trans false s s1 acc)
                    (fun st : sched * list event => let '(s1, acc) := st in trans false s s1 acc /\ quiet s1 T)
                    (adv_step T)) as Hit.
      assert (Hstep : forall st, (let '(s1, acc) := st in trans false s s1 acc) ->
                 match adv_step T st with
                 | inl s' => (let '(s1, acc) := s' in trans false s s1 acc)
                 | inr r => (let '(s1, acc) := r in trans false s s1 acc /\ quiet s1 T)
                 end).
      { intros st Hst. pose proof (adv_step_trans s T st Hst) as H. destruct (adv_step T st) as [[s1 a1]|[s1 a1]]; exact H. }
      specialize (Hit Hstep FUEL (s, []) (trans_refl s I)).
      destruct (iter_pos FUEL (adv_step T) (s, [])) as [[s1 a1]|[s1 a1]]; cbn [fst snd events_of out_ok] in *; [congruence|].
      destruct Hit as [Tr Hq].
      assert (Hnow : s_now s1 <= Z.max (s_now s1) T) by lia.
      pose proof (trans_trans _ _ _ _ _ _ _ Tr (trans_with_now s1 _ (tr_inv _ _ _ _ Tr) Hnow)) as T2.
      rewrite app_nil_r in T2. cbn [orb] in T2. split; [reflexivity|]. split; [exact T2|].
      intros T' HT HT'. inversion HT; subst T'. split; [|cbn [with_now s_now]; lia].
      destruct Hq as [Hq|Hq]; [left; exact Hq | right; exact Hq].
Qed.

(* ------------------------------------------------------------------ every operation is safe *)

Definition is_close (o : op) : bool := match o with Close => true | _ => false end.

Definition out_safe (o : out) : Prop :=
  match o with
  | ORes c evs => c = false /\ forall e, In e evs -> e_crash e = false
  | ONames _ => True
  | OOutOfFuel => True
  | OBad => False
  end.

Lemma step_safe s o : sinv s -> (o = Close -> s_stopped s = false) ->
  sinv (fst (step s o)) /\ out_safe (snd (step s o)) /\ s_stopped (fst (step s o)) = s_stopped s || is_close o.
Proof.
  intros I Hcl. destruct (snd (step s o)) eqn:Ho.
  1,2,4: (destruct (step_trans s o I Hcl ltac:(congruence)) as (Hok & Tr & _); rewrite Ho in *;
          splits; [exact (tr_inv _ _ _ _ Tr) | | rewrite (tr_stop _ _ _ _ Tr); destruct o; reflexivity]).
  - cbn in *. split; auto. intros e He. exact (tr_crash _ _ _ _ Tr e He).
  - exact Logic.I.
  - exact Hok.
  - (* out of fuel: only Advance can say so; the state reached is still a good one *)
    destruct o as [n sp re|n| | | |T]; cbn [step] in *.
    + destruct (register n sp re s) as [[s' c] evs]; discriminate.
    + destruct (unregister n s) as [s' c]; discriminate.
    + destruct (close_all (s_map s) s) as [s' c]; discriminate.
    + destruct (close_all (s_map s) s) as [s' c]. destruct c; [discriminate|]. destruct (s_stopped s'); discriminate.
    + discriminate.
    + destruct (Z.leb_spec T (s_now s)); [discriminate|].
      pose proof (iter_pos_inv
                    (fun st : sched * list event => let '(s1, acc) := st in trans false s s1 acc)
                    (fun st : sched * list event => let '(s1, acc) := st in trans false s s1 acc /\ quiet s1 T)
                    (adv_step T)) as Hit.
      assert (Hstep : forall st, (let '(s1, acc) := st in trans false s s1 acc) ->
                 match adv_step T st with
                 | inl s' => (let '(s1, acc) := s' in trans false s s1 acc)
                 | inr r => (let '(s1, acc) := r in trans false s s1 acc /\ quiet s1 T)
                 end).
      { intros st Hst. pose proof (adv_step_trans s T st Hst) as H0. destruct (adv_step T st) as [[s1 a1]|[s1 a1]]; exact H0. }
      specialize (Hit Hstep FUEL (s, []) (trans_refl s I)).
      destruct (iter_pos FUEL (adv_step T) (s, [])) as [[s1 a1]|[s1 a1]]; cbn [fst snd] in *; [|discriminate].
      splits; [exact (tr_inv _ _ _ _ Hit) | exact Logic.I |].
      rewrite (tr_stop _ _ _ _ Hit). reflexivity.
Qed.

Fixpoint close_ok (stopped : bool) (ops : list op) : Prop :=
  match ops with
  | [] => True
  | o :: r => (o = Close -> stopped = false) /\ close_ok (stopped || is_close o) r
  end.

Lemma new_sched_sinv tick start : 0 < tick -> 0 <= start -> sinv (new_sched true tick start).
Proof.
  intros Ht Hs.
  assert (Hi : forall j, inst (new_sched true tick start) j = dummy_task) by (intros [|j]; reflexivity).
  split.
  - intros j. rewrite Hi. apply jinv_dummy.
  - reflexivity.
  - exact Ht.
  - exact Hs.
  - intros n i H. discriminate.
  - intros j Hj. unfold nins in Hj; cbn in Hj. lia.
  - intros j. rewrite Hi. cbn. lia.
Qed.

Lemma run_safe : forall ops s, sinv s -> close_ok (s_stopped s) ops ->
  sinv (fst (run s ops)) /\ Forall out_safe (snd (run s ops)).
Proof.
  induction ops as [|o r IH]; intros s I Hc; cbn [run].
  - cbn. split; auto.
  - destruct Hc as [Hc1 Hc2].
    destruct (step_safe s o I Hc1) as (I1 & S1 & St1).
    destruct (step s o) as [s1 x]. cbn [fst snd] in *. rewrite <- St1 in Hc2.
    destruct (IH s1 I1 Hc2) as (I2 & S2).
    destruct (run s1 r) as [s2 xs]. cbn [fst snd] in *. split; auto.
Qed.

(* ------------------------------------------------------------------ whole histories *)

Definition all_events (outs : list out) : list event := flat_map events_of outs.
Definition has_close (ops : list op) : bool := existsb is_close ops.
Definition fuel_ok (outs : list out) : Prop := ~ In OOutOfFuel outs.

Lemma run_trans : forall ops s, sinv s -> close_ok (s_stopped s) ops -> fuel_ok (snd (run s ops)) ->
  trans (has_close ops) s (fst (run s ops)) (all_events (snd (run s ops))).
Proof.
  induction ops as [|o r IH]; intros s I Hc Hf; cbn [run].
  - cbn. apply trans_refl; auto.
  - destruct Hc as [Hc1 Hc2]. cbn [run] in Hf.
    pose proof (step_trans s o I Hc1) as HS.
    destruct (step s o) as [s1 x] eqn:Hst. cbn [fst snd] in *.
    pose proof (IH s1) as IH1.
    destruct (run s1 r) as [s2 xs] eqn:Hr. cbn [fst snd] in *.
    assert (Hx : x <> OOutOfFuel) by (intros ->; apply Hf; left; reflexivity).
    destruct (HS Hx) as (Hok & Tr & _).
    assert (Hst1 : s_stopped s1 = s_stopped s || is_close o).
    { rewrite (tr_stop _ _ _ _ Tr). destruct o; reflexivity. }
    rewrite <- Hst1 in Hc2.
    specialize (IH1 (tr_inv _ _ _ _ Tr) Hc2 ltac:(intros H; apply Hf; right; exact H)).
    pose proof (trans_trans _ _ _ _ _ _ _ Tr IH1) as T.
    unfold all_events, has_close. cbn [flat_map existsb].
    replace (is_close o) with (match o with Close => true | _ => false end) by (destruct o; reflexivity).
    exact T.
Qed.

Lemma run_app : forall a b s,
  run s (a ++ b) = let '(s1, o1) := run s a in let '(s2, o2) := run s1 b in (s2, o1 ++ o2).
Proof.
  induction a as [|o r IH]; intros b s; cbn [run app].
  - destruct (run s b); reflexivity.
  - destruct (step s o) as [s1 x]. rewrite IH. destruct (run s1 r) as [s2 xs]. destruct (run s2 b) as [s3 ys]. reflexivity.
Qed.

Lemma close_ok_app : forall a b st, close_ok st (a ++ b) -> close_ok st a /\ close_ok (st || has_close a) b.
Proof.
  induction a as [|o r IH]; intros b st H; cbn [app close_ok has_close existsb] in *.
  - rewrite orb_false_r. split; auto.
  - destruct H as [H1 H2]. destruct (IH b _ H2) as [H3 H4]. splits; auto.
    unfold has_close in H4. rewrite <- orb_assoc in H4. exact H4.
Qed.

Lemma all_events_app a b : all_events (a ++ b) = all_events a ++ all_events b.
Proof. unfold all_events. apply flat_map_app. Qed.

Lemma fuel_ok_app a b : fuel_ok (a ++ b) -> fuel_ok a /\ fuel_ok b.
Proof. unfold fuel_ok. intros H. split; intros Hin; apply H; apply in_or_app; auto. Qed.

(* a killed instance never executes again *)
Lemma trans_killed cl s s' evs j : trans cl s s' evs -> (j < nins s)%nat -> t_kill (inst s j) = true -> count_ev j evs = 0.
Proof.
  intros Tr Hj Hk. rewrite (tr_count _ _ _ _ Tr). destruct (tr_ev _ _ _ _ Tr j Hj) as [_ _ K].
  destruct (K Hk). lia.
Qed.

(* an instance that does not exist yet has not executed *)
Lemma trans_unborn cl s s' evs j : trans cl s s' evs -> (nins s' <= j)%nat -> count_ev j evs = 0.
Proof.
  intros Tr Hj. rewrite (tr_count _ _ _ _ Tr). pose proof (tr_n _ _ _ _ Tr).
  rewrite !inst_out by lia. lia.
Qed.

(* ------------------------------------------------------------------ the statements *)

Definition init (tick start : Z) : sched := new_sched true tick start.

Lemma run_split s pre o post :
  run s (pre ++ o :: post) =
  let '(s1, o1) := run s pre in let '(s2, x) := step s1 o in let '(s3, o3) := run s2 post in (s3, o1 ++ x :: o3).
Proof.
  rewrite run_app. destruct (run s pre) as [s1 o1]. cbn [run].
  destruct (step s1 o) as [s2 x]. destruct (run s2 post) as [s3 o3]. reflexivity.
Qed.

Theorem no_crash tick start ops : 0 < tick -> 0 <= start -> close_ok false ops ->
  Forall out_safe (snd (run (init tick start) ops)).
Proof.
  intros Ht Hs Hc. apply run_safe; [apply new_sched_sinv; auto | exact Hc].
Qed.

Theorem no_crash_as_shipped_refuted :
  exists tick start ops, 0 < tick /\ 0 <= start /\ close_ok false ops /\
    ~ Forall out_safe (snd (run (new_sched false tick start) ops)).
Proof.
  exists 10000000, 0, [Register 0 (SRepeat 30000000 30000000 3) []; Unregister 0].
  splits; try lia.
  - cbn. splits; auto; intros; discriminate.
  - intros H. vm_compute in H. inversion H as [|x l H1 H2]; subst. inversion H2 as [|y l2 H3 H4]; subst.
    destruct H3 as [H3 _]. discriminate.
Qed.

(* common frame: a history in which some operation [o] follows a prefix [pre] *)
Lemma frame tick start pre o post :
  0 < tick -> 0 <= start -> close_ok false (pre ++ o :: post) ->
  fuel_ok (snd (run (init tick start) (pre ++ o :: post))) ->
  let s1 := fst (run (init tick start) pre) in
  let s2 := fst (step s1 o) in
  let s3 := fst (run s2 post) in
  trans (has_close pre) (init tick start) s1 (all_events (snd (run (init tick start) pre))) /\
  trans (is_close o) s1 s2 (events_of (snd (step s1 o))) /\
  trans (has_close post) s2 s3 (all_events (snd (run s2 post))) /\
  snd (run (init tick start) (pre ++ o :: post)) =
    snd (run (init tick start) pre) ++ snd (step s1 o) :: snd (run s2 post) /\
  fst (run (init tick start) (pre ++ o :: post)) = s3 /\
  snd (step s1 o) <> OOutOfFuel /\
  (o = Close -> s_stopped s1 = false).
Proof.
  intros Ht Hs Hc Hf. cbv zeta.
  pose proof (new_sched_sinv tick start Ht Hs) as I0. fold (init tick start) in I0.
  rewrite run_split in Hf |- *.
  destruct (close_ok_app _ _ _ Hc) as [Hc1 Hc2]. cbn [orb] in Hc2.
  destruct (run (init tick start) pre) as [s1 o1] eqn:Hr1. cbn [fst snd] in *.
  destruct (step s1 o) as [s2 x] eqn:Hst. cbn [fst snd] in *.
  destruct (run s2 post) as [s3 o3] eqn:Hr3. cbn [fst snd] in *.
  apply fuel_ok_app in Hf as [Hf1 Hf2].
  assert (T1 : trans (has_close pre) (init tick start) s1 (all_events o1)).
  { pose proof (run_trans pre (init tick start) I0 Hc1) as T. rewrite Hr1 in T. apply T. exact Hf1. }
  assert (Hst1 : s_stopped s1 = has_close pre).
  { rewrite (tr_stop _ _ _ _ T1). reflexivity. }
  destruct Hc2 as [Hc2 Hc3].
  assert (Hx : x <> OOutOfFuel) by (intros ->; apply Hf2; left; reflexivity).
  assert (Hcl : o = Close -> s_stopped s1 = false) by (intros E; rewrite Hst1; auto).
  pose proof (step_trans s1 o (tr_inv _ _ _ _ T1) Hcl) as HS. rewrite Hst in HS. cbn [fst snd] in HS.
  destruct (HS Hx) as (_ & T2 & _).
  replace (match o with Close => true | _ => false end) with (is_close o) in T2 by (destruct o; reflexivity).
  assert (T3 : trans (has_close post) s2 s3 (all_events o3)).
  { pose proof (run_trans post s2 (tr_inv _ _ _ _ T2)) as T. rewrite Hr3 in T. apply T.
    - rewrite (tr_stop _ _ _ _ T2), Hst1. exact Hc3.
    - intros H. apply Hf2. right. exact H. }
  splits; auto.
Qed.

Lemma all_events_cons x l : all_events (x :: l) = events_of x ++ all_events l.
Proof. reflexivity. Qed.

(* the instance created by a Register operation in the middle of a history *)
Lemma reg_frame tick start pre n sp re post :
  0 < tick -> 0 <= start -> close_ok false (pre ++ Register n sp re :: post) ->
  fuel_ok (snd (run (init tick start) (pre ++ Register n sp re :: post))) ->
  let s1 := fst (run (init tick start) pre) in
  let s3 := fst (run (init tick start) (pre ++ Register n sp re :: post)) in
  let evs := all_events (snd (run (init tick start) (pre ++ Register n sp re :: post))) in
  let id := nins s1 in
  sinv s1 /\ sinv s3 /\ s_tick s3 = tick /\ s_tick s1 = tick /\
  count_ev id evs = t_fired (inst s3 id) /\
  evolves (new_task s1 n sp re) (inst s3 id) /\
  (forall e, In e evs -> e_inst e = id -> 0 < e_ord e -> event_ok s3 e).
Proof.
  intros Ht Hs Hc Hf. destruct (frame tick start pre _ post Ht Hs Hc Hf) as (T1 & T2 & T3 & Ho & Hs3 & Hx & _).
  cbv zeta in *. rewrite Ho, Hs3.
  set (s1 := fst (run (init tick start) pre)) in *.
  pose proof (register_spec n sp re s1 (tr_inv _ _ _ _ T1)) as RS. cbv zeta in RS.
  destruct RS as (I2 & Hcr & N2 & Nw2 & St2 & Tk2 & Hnew & Ev2 & Kl2 & Lk2 & Hev2).
  assert (Hstep : step s1 (Register n sp re) = (fst (fst (register n sp re s1)), ORes (snd (fst (register n sp re s1))) (snd (register n sp re s1)))).
  { cbn [step]. destruct (register n sp re s1) as [[s' c] evs]. reflexivity. }
  rewrite Hstep in *. cbn [fst snd events_of] in *.
  set (s2 := fst (fst (register n sp re s1))) in *.
  set (s3 := fst (run s2 post)) in *.
  assert (Hid2 : (nins s1 < nins s2)%nat) by lia.
  assert (Ev3 : evolves (inst s2 (nins s1)) (inst s3 (nins s1))) by (apply (tr_ev _ _ _ _ T3); lia).
  assert (Htk : s_tick s1 = tick).
  { rewrite (tr_tick _ _ _ _ T1). reflexivity. }
  splits.
  - exact (tr_inv _ _ _ _ T1).
  - exact (tr_inv _ _ _ _ T3).
  - rewrite (tr_tick _ _ _ _ T3), Tk2. exact Htk.
  - exact Htk.
  - rewrite !all_events_app, all_events_cons, !count_ev_app. cbn [events_of].
    rewrite (trans_unborn _ _ _ _ (nins s1) T1) by lia.
    rewrite (tr_count _ _ _ _ T2), (tr_count _ _ _ _ T3).
    rewrite Hnew, new_task_fired, (inst_out s1) by lia. cbn. lia.
  - rewrite <- Hnew. exact Ev3.
  - intros e Hin Hid Ho'. rewrite all_events_app, all_events_cons in Hin. cbn [events_of] in Hin.
    apply in_app_or in Hin as [Hin|Hin]; [|apply in_app_or in Hin as [Hin|Hin]].
    + destruct (tr_ok _ _ _ _ T1 e Hin Ho') as ((Hlt & _) & _). lia.
    + destruct (Hev2 e Hin). lia.
    + destruct (tr_ok _ _ _ _ T3 e Hin Ho') as (Ok & _). exact Ok.
Qed.

Lemma new_task_static_fields s n sp re :
  let '(a, iv, cr, total, imm) := spec_params (s_now s) sp in
  let t := new_task s n sp re in
  t_name t = n /\ t_cron t = cr /\ t_total t = total /\ t_reg t = s_now s /\
  t_after t = clamp cr a (s_tick s) /\ t_interval t = clamp cr iv (s_tick s).
Proof.
  unfold new_task. destruct (spec_params (s_now s) sp) as [[[[a iv] cr] total] imm]. cbn. splits; reflexivity.
Qed.

(* a task repeated N times runs at most N times — whatever else happens in the history *)
Theorem repeat_at_most_N tick start pre n a i N re post :
  0 < tick -> 0 <= start -> close_ok false (pre ++ Register n (SRepeat a i N) re :: post) ->
  fuel_ok (snd (run (init tick start) (pre ++ Register n (SRepeat a i N) re :: post))) ->
  0 < N ->
  count_ev (nins (fst (run (init tick start) pre)))
           (all_events (snd (run (init tick start) (pre ++ Register n (SRepeat a i N) re :: post)))) <= N.
Proof.
  intros Ht Hs Hc Hf HN.
  destruct (reg_frame tick start pre n _ re post Ht Hs Hc Hf) as (I1 & I3 & _ & _ & Hcnt & Ev & _). cbv zeta in *.
  rewrite Hcnt. destruct Ev as [(S1 & S2 & S3 & S4 & S5 & _) _ _].
  pose proof (new_task_static_fields (fst (run (init tick start) pre)) n (SRepeat a i N) re) as NF. cbn [spec_params] in NF.
  destruct NF as (_ & Hcr & Htot & _).
  destruct I3 as [J _ _ _ _ _ _].
  destruct (J (nins (fst (run (init tick start) pre)))) as (_ & Hn & _).
  destruct (Hn ltac:(congruence)) as (H1 & H2 & _). specialize (H2 ltac:(lia)). lia.
Qed.

Theorem oneshot_at_most_once tick start pre n a re post :
  0 < tick -> 0 <= start -> close_ok false (pre ++ Register n (SAfter a) re :: post) ->
  fuel_ok (snd (run (init tick start) (pre ++ Register n (SAfter a) re :: post))) ->
  count_ev (nins (fst (run (init tick start) pre)))
           (all_events (snd (run (init tick start) (pre ++ Register n (SAfter a) re :: post)))) <= 1.
Proof.
  intros Ht Hs Hc Hf.
  destruct (reg_frame tick start pre n _ re post Ht Hs Hc Hf) as (I1 & I3 & _ & _ & Hcnt & Ev & _). cbv zeta in *.
  rewrite Hcnt. destruct Ev as [(S1 & S2 & S3 & S4 & S5 & _) _ _].
  pose proof (new_task_static_fields (fst (run (init tick start) pre)) n (SAfter a) re) as NF. cbn [spec_params] in NF.
  destruct NF as (_ & Hcr & Htot & _).
  destruct I3 as [J _ _ _ _ _ _].
  destruct (J (nins (fst (run (init tick start) pre)))) as (_ & Hn & _).
  destruct (Hn ltac:(congruence)) as (H1 & H2 & _). specialize (H2 ltac:(lia)). lia.
Qed.

(* ------------------------------------------------------------------ when the executions happen *)

Definition clampd (x tick : Z) : Z := if x <? tick then tick else x.

Lemma trunc_bounds x m : 0 <= x -> 0 < m -> x - m < trunc x m <= x.
Proof.
  intros Hx Hm. unfold trunc. destruct (Z.leb_spec m 0); [lia|].
  pose proof (Z.rem_bound_pos x m Hx Hm). lia.
Qed.

Lemma to_ms_bounds y : 0 <= y -> y - MS < to_ms y * MS <= y.
Proof.
  intros Hy. unfold to_ms. pose proof MS_pos.
  rewrite Z.quot_div_nonneg by lia.
  pose proof (Z.mul_div_le y MS ltac:(lia)). pose proof (Z.mul_succ_div_gt y MS ltac:(lia)). lia.
Qed.

(* the k-th execution of a repeated task happens in the wheel bucket of
   (registration instant + first delay) in ms + (k-1) intervals in ms *)
Theorem fire_instants tick start pre n a i N re post :
  0 < tick -> 0 <= start -> close_ok false (pre ++ Register n (SRepeat a i N) re :: post) ->
  fuel_ok (snd (run (init tick start) (pre ++ Register n (SRepeat a i N) re :: post))) ->
  let s1 := fst (run (init tick start) pre) in
  forall e, In e (all_events (snd (run (init tick start) (pre ++ Register n (SRepeat a i N) re :: post)))) ->
    e_inst e = nins s1 -> 0 < e_ord e ->
    e_ms e = trunc (to_ms (s_now s1 + clampd a tick) + (e_ord e - 1) * Z.quot (clampd i tick) MS) (Z.quot tick MS) /\
    (0 < N -> e_ord e <= N).
Proof.
  intros Ht Hs Hc Hf s1 e Hin Hid Ho.
  destruct (reg_frame tick start pre n _ re post Ht Hs Hc Hf) as (I1 & I3 & Tk3 & Tk1 & Hcnt & Ev & Hok). cbv zeta in *.
  fold s1 in Tk1, Ev, Hok, Hcnt.
  destruct (Hok e Hin Hid Ho) as (Hlt & Hms & Hfd & Htot). rewrite Hid in *.
  destruct Ev as [(S1 & S2 & S3 & S4 & S5 & S6 & S7 & S8) _ _].
  pose proof (new_task_static_fields s1 n (SRepeat a i N) re) as NF. cbn [spec_params] in NF.
  destruct NF as (_ & Hcr & Htt & Hreg & Haf & Hiv).
  split.
  - rewrite Hms by congruence. unfold e1, iv_ms, tick_ms. rewrite <- S2, <- S3, <- S7, Tk3, Hreg, Haf, Hiv, Tk1. reflexivity.
  - intros HN. rewrite <- Htt, S5. apply Htot; congruence.
Qed.

Theorem oneshot_not_early tick start pre n a re post :
  0 < tick -> 0 <= start -> close_ok false (pre ++ Register n (SAfter a) re :: post) ->
  fuel_ok (snd (run (init tick start) (pre ++ Register n (SAfter a) re :: post))) ->
  let s1 := fst (run (init tick start) pre) in
  let due := s_now s1 + clampd a tick in
  forall e, In e (all_events (snd (run (init tick start) (pre ++ Register n (SAfter a) re :: post)))) ->
    e_inst e = nins s1 -> 0 < e_ord e ->
    e_ms e = trunc (to_ms due) (Z.quot tick MS) /\
    (MS <= tick -> due - tick - MS < e_ms e * MS <= due).
Proof.
  intros Ht Hs Hc Hf s1 due e Hin Hid Ho.
  destruct (reg_frame tick start pre n _ re post Ht Hs Hc Hf) as (I1 & I3 & Tk3 & Tk1 & Hcnt & Ev & Hok). cbv zeta in *.
  fold s1 in Tk1, Ev, Hok, Hcnt.
  destruct (Hok e Hin Hid Ho) as (Hlt & Hms & Hfd & Htot). rewrite Hid in *.
  destruct Ev as [(S1 & S2 & S3 & S4 & S5 & S6 & S7 & S8) _ _].
  pose proof (new_task_static_fields s1 n (SAfter a) re) as NF. cbn [spec_params] in NF.
  destruct NF as (_ & Hcr & Htt & Hreg & Haf & Hiv).
  assert (Hord : e_ord e = 1) by (specialize (Htot ltac:(lia) ltac:(congruence)); lia).
  assert (Hme : e_ms e = trunc (to_ms due) (Z.quot tick MS)).
  { rewrite Hms by congruence. unfold e1, iv_ms, tick_ms. rewrite <- S2, <- S7, Tk3, Hreg, Haf, Tk1, Hord.
    unfold due, clampd, clamp. f_equal. lia. }
  split; [exact Hme|]. intros Hms1.
  destruct I1 as [_ _ _ Nw1 _ _ _]. fold s1 in Nw1.
  assert (Hdue : 0 <= due) by (unfold due, clampd; destruct (Z.ltb_spec a tick); lia).
  pose proof (to_ms_bounds due Hdue) as B1. pose proof (to_ms_nonneg due Hdue) as B0.
  assert (Htm : 0 < Z.quot tick MS).
  { pose proof MS_pos. rewrite Z.quot_div_nonneg by lia. apply Z.div_str_pos. lia. }
  pose proof (trunc_bounds (to_ms due) (Z.quot tick MS) B0 Htm) as B2.
  assert (Htm2 : Z.quot tick MS * MS <= tick).
  { pose proof MS_pos. rewrite Z.quot_div_nonneg by lia. pose proof (Z.mul_div_le tick MS ltac:(lia)). lia. }
  rewrite Hme. pose proof MS_pos. nia.
Qed.

(* "not early" does not hold without the wheel's granularity: a 25 ms one-shot registered 1.5 ms after a bucket
   boundary of a 10 ms wheel runs 18.5 ms later *)
Theorem oneshot_not_early_strict_refuted :
  exists tick start pre n a post,
    0 < tick /\ 0 <= start /\ close_ok false (pre ++ Register n (SAfter a) [] :: post) /\
    let s1 := fst (run (init tick start) pre) in
    exists e, In e (all_events (snd (run (init tick start) (pre ++ Register n (SAfter a) [] :: post)))) /\
      e_inst e = nins s1 /\ 0 < e_ord e /\ e_ms e * MS < s_now s1 + a.
Proof.
  exists 10000000, 0, [Advance 1500000], 0%nat, 25000000, [Advance 100000000].
  splits; try lia.
  - cbn. splits; auto; intros; discriminate.
  - cbv zeta. exists {| e_ms := 20; e_inst := 0; e_ord := 1; e_crash := false |}. vm_compute. splits; auto; try reflexivity.
Qed.

(* ------------------------------------------------------------------ replace, cancel, close *)

Lemma run_cons s o post : snd (run s (o :: post)) = snd (step s o) :: snd (run (fst (step s o)) post).
Proof. cbn [run]. destruct (step s o) as [s2 x]. cbn [fst snd]. destruct (run s2 post). reflexivity. Qed.

(* re-registering a name kills the task that held it: that one never executes again, the name now denotes the new task *)
Theorem replace tick start pre n sp re post :
  0 < tick -> 0 <= start -> close_ok false (pre ++ Register n sp re :: post) ->
  fuel_ok (snd (run (init tick start) (pre ++ Register n sp re :: post))) ->
  let s1 := fst (run (init tick start) pre) in
  forall j, lookup n (s_map s1) = Some j ->
    count_ev j (all_events (snd (run s1 (Register n sp re :: post)))) = 0 /\
    lookup n (s_map (fst (step s1 (Register n sp re)))) = Some (nins s1).
Proof.
  intros Ht Hs Hc Hf s1 j Hl.
  destruct (frame tick start pre _ post Ht Hs Hc Hf) as (T1 & T2 & T3 & Ho & Hs3 & Hx & _). cbv zeta in *. fold s1 in T1, T2, T3.
  pose proof (register_spec n sp re s1 (tr_inv _ _ _ _ T1)) as RS. cbv zeta in RS.
  destruct RS as (I2 & Hcr & N2 & Nw2 & St2 & Tk2 & Hnew & Ev2 & Kl2 & Lk2 & Hev2).
  assert (Hstep : step s1 (Register n sp re) = (fst (fst (register n sp re s1)), ORes (snd (fst (register n sp re s1))) (snd (register n sp re s1)))).
  { cbn [step]. destruct (register n sp re s1) as [[s' c] evs]. reflexivity. }
  destruct (tr_inv _ _ _ _ T1) as [_ _ _ _ M1 _ _]. destruct (M1 n j Hl) as [Hj _].
  rewrite run_cons, all_events_cons, count_ev_app. rewrite Hstep in *. cbn [fst snd events_of] in *.
  split; [|exact Lk2].
  rewrite count_ev_ord0 by (intros e He; apply Hev2; auto).
  rewrite (trans_killed _ _ _ _ j T3); [lia | lia | apply Kl2; auto].
Qed.

(* a cancelled task never executes again (in particular never, if it had not executed before) *)
Theorem cancel_never_fires tick start pre n post :
  0 < tick -> 0 <= start -> close_ok false (pre ++ Unregister n :: post) ->
  fuel_ok (snd (run (init tick start) (pre ++ Unregister n :: post))) ->
  let s1 := fst (run (init tick start) pre) in
  forall j, lookup n (s_map s1) = Some j ->
    count_ev j (all_events (snd (run s1 (Unregister n :: post)))) = 0 /\
    count_ev j (all_events (snd (run (init tick start) (pre ++ Unregister n :: post)))) =
      count_ev j (all_events (snd (run (init tick start) pre))) /\
    lookup n (s_map (fst (step s1 (Unregister n)))) = None.
Proof.
  intros Ht Hs Hc Hf s1 j Hl.
  destruct (frame tick start pre _ post Ht Hs Hc Hf) as (T1 & T2 & T3 & Ho & Hs3 & Hx & _). cbv zeta in *. fold s1 in T1, T2, T3, Ho.
  pose proof (tr_inv _ _ _ _ T1) as I1. pose proof I1 as [J1 _ _ _ M1 _ _]. destruct (M1 n j Hl) as [Hj _].
  assert (Hstep : step s1 (Unregister n) = (fst (unregister n s1), ORes (snd (unregister n s1)) [])).
  { cbn [step]. destruct (unregister n s1) as [s' c]. reflexivity. }
  assert (Hk : t_kill (inst (fst (unregister n s1)) j) = true).
  { rewrite unregister_inst, Hl, Nat.eqb_refl. apply close_task_kill. }
  pose proof (unregister_fields n s1) as HF. cbv zeta in HF. destruct HF as (N1 & _).
  assert (H0 : count_ev j (all_events (snd (run s1 (Unregister n :: post)))) = 0).
  { rewrite run_cons, all_events_cons, count_ev_app. rewrite Hstep in *. cbn [fst snd events_of count_ev] in *.
    rewrite (trans_killed _ _ _ _ j T3); [lia | lia | exact Hk]. }
  splits; auto.
  - rewrite Ho, all_events_app, count_ev_app. rewrite run_cons in H0. rewrite H0. lia.
  - rewrite Hstep. cbn [fst]. rewrite unregister_map, (unregister_no_crash n s1 J1), lookup_remove, Nat.eqb_refl. reflexivity.
Qed.

(* Clear and Close cancel everything *)
Theorem clear_close_cancel_all tick start pre o post :
  0 < tick -> 0 <= start -> close_ok false (pre ++ o :: post) -> o = Clear \/ o = Close ->
  fuel_ok (snd (run (init tick start) (pre ++ o :: post))) ->
  let s1 := fst (run (init tick start) pre) in
  forall j, (j < nins s1)%nat -> count_ev j (all_events (snd (run s1 (o :: post)))) = 0.
Proof.
  intros Ht Hs Hc Ho Hf s1 j Hj.
  destruct (frame tick start pre _ post Ht Hs Hc Hf) as (T1 & T2 & T3 & Hoo & Hs3 & Hx & Hcl). cbv zeta in *. fold s1 in T1, T2, T3, Hcl.
  pose proof (tr_inv _ _ _ _ T1) as I1.
  destruct (close_all_sinv s1 I1) as (I2 & Hc2 & Lk & Kl & N & Nw & St & Tk & Ev).
  rewrite run_cons, all_events_cons, count_ev_app.
  assert (Hk : t_kill (inst (fst (step s1 o)) j) = true /\ events_of (snd (step s1 o)) = [] /\ nins (fst (step s1 o)) = nins s1).
  { destruct Ho as [-> | ->]; cbn [step].
    - destruct (close_all (s_map s1) s1) as [s' c]. cbn [fst snd] in *. subst c. cbn. splits; auto.
    - destruct (close_all (s_map s1) s1) as [s' c]. cbn [fst snd] in *. subst c.
      rewrite St, (Hcl eq_refl). cbn [fst snd events_of].
      splits; [exact (Kl j Hj) | reflexivity | exact N]. }
  destruct Hk as (Hk & He & Hn). rewrite He. cbn [count_ev].
  rewrite (trans_killed _ _ _ _ j T3); [lia | lia | exact Hk].
Qed.

Lemma iter_pos_stop {S R : Type} (step : S -> S + R) r : forall p s, step s = inr r -> iter_pos p step s = inr r.
Proof.
  induction p as [q IH|q IH|]; intros s H; cbn [iter_pos].
  - rewrite H. reflexivity.
  - rewrite (IH s H). reflexivity.
  - exact H.
Qed.

Lemma stopped_no_firing : forall ops s, sinv s -> s_stopped s = true -> close_ok true ops ->
  forall e, In e (all_events (snd (run s ops))) -> e_ord e = 0.
Proof.
  induction ops as [|o r IH]; intros s I Hst Hc e Hin; cbn [run] in Hin.
  - destruct Hin.
  - destruct Hc as [Hc1 Hc2]. cbn [orb] in Hc2.
    assert (Hcl : o = Close -> s_stopped s = false) by (intros E; specialize (Hc1 E); discriminate).
    destruct (step_safe s o I Hcl) as (I1 & _ & St1). rewrite Hst in St1. cbn [orb] in St1.
    assert (Hev : forall e, In e (events_of (snd (step s o))) -> e_ord e = 0).
    { destruct o as [n sp re|n| | | |T]; cbn [step].
      - pose proof (register_spec n sp re s I) as RS. cbv zeta in RS.
        destruct RS as (_ & _ & _ & _ & _ & _ & _ & _ & _ & _ & Hev).
        destruct (register n sp re s) as [[s' c] evs]. cbn [fst snd events_of] in *. intros e0 H0. apply Hev; auto.
      - destruct (unregister n s) as [s' c]. cbn. intros e0 [].
      - destruct (close_all (s_map s) s) as [s' c]. cbn. intros e0 [].
      - specialize (Hc1 eq_refl). discriminate.
      - cbn. intros e0 [].
      - destruct (Z.leb_spec T (s_now s)); [cbn; intros e0 []|].
        rewrite (iter_pos_stop (adv_step T) (s, [])) by (unfold adv_step; rewrite Hst; reflexivity).
        cbn. intros e0 []. }
    destruct (step s o) as [s1 x]. cbn [fst snd] in *.
    specialize (IH s1 I1 St1 Hc2).
    destruct (run s1 r) as [s2 xs]. cbn [fst snd] in *.
    rewrite all_events_cons in Hin. apply in_app_or in Hin as [H|H]; auto.
Qed.

(* nothing is executed by a timer after Close (only the synchronous "immediate" call of a registration can still happen) *)
Theorem no_fire_after_close tick start pre post :
  0 < tick -> 0 <= start -> close_ok false (pre ++ Close :: post) ->
  fuel_ok (snd (run (init tick start) (pre ++ Close :: post))) ->
  let s2 := fst (step (fst (run (init tick start) pre)) Close) in
  forall e, In e (all_events (snd (run s2 post))) -> e_ord e = 0.
Proof.
  intros Ht Hs Hc Hf s2 e Hin.
  destruct (frame tick start pre _ post Ht Hs Hc Hf) as (T1 & T2 & T3 & Ho & Hs3 & Hx & Hcl). cbv zeta in *. fold s2 in T2, T3.
  destruct (close_ok_app _ _ _ Hc) as [_ Hc2]. cbn [close_ok orb is_close] in Hc2. destruct Hc2 as [_ Hc3].
  rewrite orb_true_r in Hc3.
  apply (stopped_no_firing post s2 (tr_inv _ _ _ _ T2)); auto.
  rewrite (tr_stop _ _ _ _ T2). cbn. apply orb_true_r.
Qed.

(* ------------------------------------------------------------------ a task that is left alone runs to completion *)

Definition alone (n id : nat) (s : sched) : Prop :=
  lookup n (s_map s) = Some id /\ t_kill (inst s id) = false /\ s_stopped s = false /\ t_react (inst s id) = [].

Definition leaves_alone (n : nat) (o : op) : Prop :=
  match o with
  | Register n' _ _ => n' <> n
  | Unregister n' => n' <> n
  | Clear | Close => False
  | Names | Advance _ => True
  end.

Lemma unregister_other n n' id s : sinv s -> lookup n (s_map s) = Some id -> n' <> n ->
  lookup n (s_map (fst (unregister n' s))) = Some id /\ inst (fst (unregister n' s)) id = inst s id.
Proof.
  intros I Hl Hne. pose proof I as [J _ _ _ M _ _].
  rewrite unregister_map, (unregister_no_crash n' s J), lookup_remove.
  destruct (Nat.eqb_spec n n'); [congruence|]. split; auto.
  rewrite unregister_inst. destruct (lookup n' (s_map s)) as [i|] eqn:Hl'; auto.
  destruct (Nat.eqb_spec id i) as [->|]; auto.
  destruct (M n i Hl) as [_ H1]. destruct (M n' i Hl') as [_ H2]. congruence.
Qed.

Lemma register_other n n' sp re id s : sinv s -> lookup n (s_map s) = Some id -> n' <> n ->
  let s' := fst (fst (register n' sp re s)) in
  lookup n (s_map s') = Some id /\ inst s' id = inst s id.
Proof.
  intros I Hl Hne. cbv zeta. pose proof I as [J _ _ _ M _ _].
  pose proof (unregister_no_crash n' s J) as Hc.
  destruct (register_ok n' sp re s Hc) as (Hs & _ & _). cbv zeta in Hs. rewrite Hs.
  destruct (unregister_other n n' id s I Hl Hne) as [Hl1 Hi1].
  pose proof (unregister_fields n' s) as HF. cbv zeta in HF. destruct HF as (N1 & _).
  destruct (M n id Hl) as [Hid _].
  split.
  - cbn [s_map with_map lookup]. destruct (Nat.eqb_spec n' n); [congruence|].
    rewrite lookup_remove. destruct (Nat.eqb_spec n n'); [congruence|]. exact Hl1.
  - rewrite inst_app, N1. destruct (Nat.ltb_spec id (nins s)); [exact Hi1 | lia].
Qed.

Lemma alone_static n id s s' : alone n id s -> lookup n (s_map s') = Some id -> inst s' id = inst s id ->
  s_stopped s' = s_stopped s -> alone n id s'.
Proof. intros (A1 & A2 & A3 & A4) Hl Hi Hs. unfold alone. rewrite Hi, Hs. auto. Qed.

Lemma fire_alone n id s i e : sinv s -> alone n id s -> (i < nins s)%nat -> t_pend (inst s i) = Some e ->
  alone n id (fst (fire s i e)).
Proof.
  intros I A Hi Hp. pose proof A as (A1 & A2 & A3 & A4). pose proof I as [J _ _ _ M L _].
  destruct (M n id A1) as [Hid Hname].
  rewrite (fire_eq s i e I Hi Hp). cbv zeta.
  pose proof (trans_after_next s i e I Hi Hp) as T3. cbv zeta in T3.
  pose proof (tr_inv _ _ _ _ T3) as I3.
  assert (Hst3 : s_stopped (after_next s i e) = s_stopped s) by reflexivity.
  assert (Hmap3 : s_map (after_next s i e) = s_map s) by reflexivity.
  assert (A3' : alone n id (after_next s i e)).
  { unfold alone. rewrite Hmap3, Hst3, inst_after_next by auto.
    destruct (Nat.eqb_spec id i) as [->|Hne]; [|auto].
    pose proof (fired_task_evolves (inst s i) e) as [(S1 & S2 & S3 & S4 & S5 & S6 & S7 & S8) _ _].
    splits; auto; [|congruence].
    unfold fired_task. rewrite next_task_kill, A2. tsimpl. rewrite next_task_kill. exact A2. }
  destruct (t_kill (inst s i)) eqn:Hk; [exact A3'|].
  destruct (Nat.eq_dec i id) as [->|Hne].
  - rewrite A4. cbn [find_react fst]. exact A3'.
  - (* another live task: its name is not n *)
    assert (Hnn : t_name (inst s i) <> n).
    { intros E. pose proof (L i Hi Hk) as Hl. rewrite E in Hl. congruence. }
    destruct A3' as (B1 & B2 & B3 & B4).
    destruct (find_react (t_fired (inst s i) + 1) (t_react (inst s i))) as [[|sp]|]; cbn [fst].
    + destruct (unregister_other n (t_name (inst s i)) id _ I3 B1 Hnn) as [Hl Hi'].
      pose proof (unregister_fields (t_name (inst s i)) (after_next s i e)) as HF. cbv zeta in HF.
      destruct HF as (_ & _ & _ & _ & Hst).
      destruct (unregister (t_name (inst s i)) (after_next s i e)) as [s4 c1]. cbn [fst] in *.
      unfold alone. rewrite Hi', Hst. auto.
    + pose proof (register_other n (t_name (inst s i)) sp [] id _ I3 B1 Hnn) as RO. cbv zeta in RO.
      destruct RO as [Hl Hi'].
      pose proof (register_spec (t_name (inst s i)) sp [] _ I3) as RS. cbv zeta in RS.
      destruct RS as (_ & _ & _ & _ & Hst & _).
      destruct (register (t_name (inst s i)) sp [] (after_next s i e)) as [[s4 c1] evs]. cbn [fst] in *.
      unfold alone. rewrite Hi', Hst. auto.
    + unfold alone; auto.
Qed.

Lemma step_alone n id s o : sinv s -> alone n id s -> leaves_alone n o -> snd (step s o) <> OOutOfFuel ->
  alone n id (fst (step s o)).
Proof.
  intros I A Hla Hf. pose proof A as (A1 & A2 & A3 & A4).
  destruct o as [n' sp re|n'| | | |T]; cbn [leaves_alone] in Hla; try contradiction; cbn [step] in *.
  - pose proof (register_other n n' sp re id s I A1 Hla) as RO. cbv zeta in RO. destruct RO as [Hl Hi].
    pose proof (register_spec n' sp re s I) as RS. cbv zeta in RS. destruct RS as (_ & _ & _ & _ & Hst & _).
    destruct (register n' sp re s) as [[s' c] evs]. cbn [fst] in *. eapply alone_static; eauto.
  - destruct (unregister_other n n' id s I A1 Hla) as [Hl Hi].
    pose proof (unregister_fields n' s) as HF. cbv zeta in HF. destruct HF as (_ & _ & _ & _ & Hst).
    destruct (unregister n' s) as [s' c]. cbn [fst] in *. eapply alone_static; eauto.
  - exact A.
  - destruct (Z.leb_spec T (s_now s)); [exact A|].
    pose proof (iter_pos_inv
                  (fun st : sched * list event => let '(s1, acc) := st in trans false s s1 acc /\ alone n id s1)
                  (fun st : sched * list event => let '(s1, acc) := st in trans false s s1 acc /\ alone n id s1)
                  (adv_step T)) as Hit.
    assert (Hstep : forall st, (let '(s1, acc) := st in trans false s s1 acc /\ alone n id s1) ->
               match adv_step T st with
               | inl s' => (let '(s1, acc) := s' in trans false s s1 acc /\ alone n id s1)
               | inr r => (let '(s1, acc) := r in trans false s s1 acc /\ alone n id s1)
               end).
    { intros [s1 acc] [Tr Al]. pose proof (adv_step_trans s T (s1, acc) Tr) as H0.
      unfold adv_step in *. destruct (s_stopped s1); [split; auto; apply H0|].
      destruct (earliest (tick_ms s1) T (s_insts s1) 0 None) as [[i e]|] eqn:He; [|split; auto; apply H0].
      apply earliest_spec in He. destruct He as [He|(Hr & Hp & Hd)]; [discriminate|].
      rewrite Nat.sub_0_r in Hp. fold (inst s1 i) in Hp.
      pose proof (fire_alone n id s1 i e (tr_inv _ _ _ _ Tr) Al ltac:(unfold nins; lia) Hp) as FA.
      destruct (fire s1 i e) as [s' evs]. cbn [fst] in FA. split; auto. }
    specialize (Hit Hstep FUEL (s, []) (conj (trans_refl s I) A)).
    destruct (iter_pos FUEL (adv_step T) (s, [])) as [[s1 a1]|[s1 a1]]; cbn [fst snd] in *; [congruence|].
    destruct Hit as [_ Al]. exact Al.
Qed.

Lemma run_alone n id : forall ops s, sinv s -> close_ok (s_stopped s) ops -> alone n id s -> Forall (leaves_alone n) ops ->
  fuel_ok (snd (run s ops)) -> alone n id (fst (run s ops)).
Proof.
  induction ops as [|o r IH]; intros s I Hc A Hla Hf; cbn [run]; [exact A|].
  inversion Hla as [|? ? Ho Hr]; subst. destruct Hc as [Hc1 Hc2]. cbn [run] in Hf.
  pose proof (step_alone n id s o I A Ho) as SA. pose proof (step_safe s o I Hc1) as (I1 & _ & St1).
  destruct (step s o) as [s1 x]. cbn [fst snd] in *.
  pose proof (IH s1) as IH1. destruct (run s1 r) as [s2 xs]. cbn [fst snd] in *.
  rewrite <- St1 in Hc2.
  apply IH1; auto.
  - apply SA. intros ->. apply Hf. left. reflexivity.
  - intros H. apply Hf. right. exact H.
Qed.

Lemma trunc_le x m : 0 <= x -> trunc x m <= x.
Proof.
  intros Hx. unfold trunc. destruct (Z.leb_spec m 0); [lia|].
  pose proof (Z.rem_nonneg x m ltac:(lia) Hx). lia.
Qed.

Lemma run_snoc s ops o :
  run s (ops ++ [o]) = let '(s1, o1) := run s ops in let '(s2, x) := step s1 o in (s2, o1 ++ [x]).
Proof.
  rewrite run_app. destruct (run s ops) as [s1 o1]. cbn [run]. destruct (step s1 o) as [s2 x]. reflexivity.
Qed.

(* the general form: a non-cron task with a positive count that nobody touches has run exactly [total] times once
   the clock has passed its last due instant *)
Lemma left_alone_completes tick start pre n sp post T :
  0 < tick -> 0 <= start ->
  close_ok false (pre ++ Register n sp [] :: post ++ [Advance T]) ->
  fuel_ok (snd (run (init tick start) (pre ++ Register n sp [] :: post ++ [Advance T]))) ->
  has_close pre = false -> Forall (leaves_alone n) post ->
  let s1 := fst (run (init tick start) pre) in
  let t0 := new_task s1 n sp [] in
  t_cron t0 = None -> 0 < t_total t0 ->
  s_now (fst (run (init tick start) (pre ++ Register n sp [] :: post))) < T ->
  (e1 t0 + (t_total t0 - 1) * iv_ms t0) * MS <= T ->
  count_ev (nins s1) (all_events (snd (run (init tick start) (pre ++ Register n sp [] :: post ++ [Advance T])))) = t_total t0.
Proof.
  intros Ht Hs Hc Hf Hnc Hla s1 t0 Hcr Htot Hnow Hdue.
  destruct (reg_frame tick start pre n sp [] (post ++ [Advance T]) Ht Hs Hc Hf) as (I1 & Ifin & Tkf & Tk1 & Hcnt & Ev & _).
  cbv zeta in *. fold s1 in I1, Tk1, Hcnt, Ev. fold t0 in Ev. rewrite Hcnt.
  destruct (frame tick start pre _ (post ++ [Advance T]) Ht Hs Hc Hf) as (T1 & T2 & T3 & Ho & Hs3 & Hx & _).
  cbv zeta in *. fold s1 in T1, T2, T3, Ho, Hs3.
  set (s2 := fst (step s1 (Register n sp []))) in *.
  (* the state right after the registration *)
  pose proof (register_spec n sp [] s1 I1) as RS. cbv zeta in RS.
  destruct RS as (I2 & _ & N2 & _ & St2 & _ & Hnew & _ & _ & Lk2 & _).
  assert (Hs2 : s2 = fst (fst (register n sp [] s1))).
  { unfold s2. cbn [step]. destruct (register n sp [] s1) as [[s' c] evs]. reflexivity. }
  rewrite <- Hs2 in *.
  assert (Hst1 : s_stopped s1 = false) by (rewrite (tr_stop _ _ _ _ T1), Hnc; reflexivity).
  assert (A2 : alone n (nins s1) s2).
  { unfold alone. rewrite Hnew, St2, Hst1. fold t0. splits; auto.
    - unfold t0, new_task. destruct (spec_params (s_now s1) sp) as [[[[a iv] cr] total] imm]. reflexivity.
    - unfold t0, new_task. destruct (spec_params (s_now s1) sp) as [[[[a iv] cr] total] imm]. reflexivity. }
  (* split the rest of the history *)
  rewrite Ho in Hf. apply fuel_ok_app in Hf as [_ Hf2].
  assert (Hf3 : fuel_ok (snd (run s2 (post ++ [Advance T])))) by (intros H; apply Hf2; right; exact H).
  destruct (close_ok_app _ _ _ Hc) as [_ Hc2]. cbn [close_ok] in Hc2. destruct Hc2 as [_ Hc3].
  assert (Hc4 : close_ok (s_stopped s2) (post ++ [Advance T])).
  { rewrite St2, Hst1. cbn [orb is_close] in Hc3. rewrite Hnc in Hc3. exact Hc3. }
  destruct (close_ok_app _ _ _ Hc4) as [Hc5 Hc6].
  assert (Hsfin : fst (run (init tick start) (pre ++ Register n sp [] :: post ++ [Advance T])) = fst (run s2 (post ++ [Advance T]))) by exact Hs3.
  rewrite Hsfin in *.
  assert (Hs3' : fst (run (init tick start) (pre ++ Register n sp [] :: post)) = fst (run s2 post)).
  { rewrite run_split. fold s1. destruct (run (init tick start) pre) as [s1' o1] eqn:E1. unfold s1 in *. cbn [fst] in *.
    unfold s2. destruct (step s1' (Register n sp [])) as [s2' x]. cbn [fst]. destruct (run s2' post). reflexivity. }
  rewrite Hs3' in Hnow.
  rewrite run_snoc in Hf3, Ev |- *.
  pose proof (run_alone n (nins s1) post s2 I2 Hc5 A2 Hla) as RA.
  pose proof (run_safe post s2 I2 Hc5) as [I3 _].
  destruct (run s2 post) as [s3 o3] eqn:Hr3. cbn [fst snd] in *.
  pose proof (step_alone n (nins s1) s3 (Advance T) I3) as SA.
  pose proof (step_trans s3 (Advance T) I3 ltac:(intros; discriminate)) as ST.
  destruct (step s3 (Advance T)) as [s4 x] eqn:Hst4. cbn [fst snd] in *.
  apply fuel_ok_app in Hf3 as [Hf4 Hf5].
  assert (Hx4 : x <> OOutOfFuel) by (intros ->; apply Hf5; left; reflexivity).
  specialize (RA Hf4). specialize (SA RA Logic.I Hx4).
  destruct (ST Hx4) as (_ & T4 & Hq). destruct (Hq T eq_refl Hnow) as [Hquiet _].
  destruct SA as (B1 & B2 & B3 & B4).
  (* the final state of the instance *)
  destruct Ev as [(S1 & S2 & S3 & S4 & S5 & S6 & S7 & S8) _ _].
  pose proof (tr_inv _ _ _ _ T4) as [J4 _ _ _ M4 _ _].
  destruct (M4 n (nins s1) B1) as [Hid4 _].
  destruct (J4 (nins s1)) as (F0 & Hn & _). pose proof (J4 (nins s1)) as Jt.
  destruct (Hn ltac:(congruence)) as (H1 & H2 & H3). specialize (H3 B2).
  destruct (t_pend (inst s4 (nins s1))) as [e|] eqn:Hp.
  - exfalso. destruct H3 as (T1' & Fd & Ee).
    destruct Hquiet as [Hq1|Hq2]; [congruence|].
    specialize (Hq2 (nins s1) e Hid4 Hp).
    pose proof (e1_nonneg _ Jt) as He1. pose proof (iv_ms_nonneg _ Jt) as Hiv.
    assert (He : 0 <= e) by nia.
    pose proof (trunc_le e (tick_ms s4) He) as Htr.
    specialize (H2 ltac:(lia)).
    assert (Hle : e <= e1 t0 + (t_total t0 - 1) * iv_ms t0).
    { unfold e1, iv_ms in *. rewrite S2, S3, S5, S7. nia. }
    pose proof MS_pos. nia.
  - destruct H3 as (_ & _ & Hfd). lia.
Qed.

Theorem repeat_exactly_N tick start pre n a i N post T :
  0 < tick -> 0 <= start ->
  close_ok false (pre ++ Register n (SRepeat a i N) [] :: post ++ [Advance T]) ->
  fuel_ok (snd (run (init tick start) (pre ++ Register n (SRepeat a i N) [] :: post ++ [Advance T]))) ->
  has_close pre = false -> Forall (leaves_alone n) post -> 0 < N ->
  let s1 := fst (run (init tick start) pre) in
  s_now (fst (run (init tick start) (pre ++ Register n (SRepeat a i N) [] :: post))) < T ->
  (to_ms (s_now s1 + clampd a tick) + (N - 1) * Z.quot (clampd i tick) MS) * MS <= T ->
  count_ev (nins s1)
    (all_events (snd (run (init tick start) (pre ++ Register n (SRepeat a i N) [] :: post ++ [Advance T])))) = N.
Proof.
  intros Ht Hs Hc Hf Hnc Hla HN s1 Hnow Hdue.
  destruct (frame tick start pre _ (post ++ [Advance T]) Ht Hs Hc Hf) as (T1 & _). cbv zeta in T1. fold s1 in T1.
  assert (Htk : s_tick s1 = tick) by (rewrite (tr_tick _ _ _ _ T1); reflexivity).
  pose proof (new_task_static_fields s1 n (SRepeat a i N) []) as NF. cbn [spec_params] in NF.
  destruct NF as (_ & Hcr & Htt & Hreg & Haf & Hiv).
  pose proof (left_alone_completes tick start pre n (SRepeat a i N) post T Ht Hs Hc Hf Hnc Hla) as L. cbv zeta in L.
  fold s1 in L. rewrite Htt in L. apply L; auto.
  unfold e1, iv_ms. rewrite Hreg, Haf, Hiv, Htk. exact Hdue.
Qed.

Theorem oneshot_exactly_once tick start pre n a post T :
  0 < tick -> 0 <= start ->
  close_ok false (pre ++ Register n (SAfter a) [] :: post ++ [Advance T]) ->
  fuel_ok (snd (run (init tick start) (pre ++ Register n (SAfter a) [] :: post ++ [Advance T]))) ->
  has_close pre = false -> Forall (leaves_alone n) post ->
  let s1 := fst (run (init tick start) pre) in
  s_now (fst (run (init tick start) (pre ++ Register n (SAfter a) [] :: post))) < T ->
  to_ms (s_now s1 + clampd a tick) * MS <= T ->
  count_ev (nins s1)
    (all_events (snd (run (init tick start) (pre ++ Register n (SAfter a) [] :: post ++ [Advance T])))) = 1.
Proof.
  intros Ht Hs Hc Hf Hnc Hla s1 Hnow Hdue.
  destruct (frame tick start pre _ (post ++ [Advance T]) Ht Hs Hc Hf) as (T1 & _). cbv zeta in T1. fold s1 in T1.
  assert (Htk : s_tick s1 = tick) by (rewrite (tr_tick _ _ _ _ T1); reflexivity).
  pose proof (new_task_static_fields s1 n (SAfter a) []) as NF. cbn [spec_params] in NF.
  destruct NF as (_ & Hcr & Htt & Hreg & Haf & Hiv).
  pose proof (left_alone_completes tick start pre n (SAfter a) post T Ht Hs Hc Hf Hnc Hla) as L. cbv zeta in L.
  fold s1 in L. rewrite Htt in L. apply L; auto; try lia.
  unfold e1, iv_ms. rewrite Hreg, Haf, Htk. unfold clamp, clampd in *. lia.
Qed.

(* boolean form of fuel_ok, for examples evaluated with vm_compute *)
Definition fuel_okb (outs : list out) : bool :=
  forallb (fun o => match o with OOutOfFuel => false | _ => true end) outs.
Lemma fuel_okb_ok outs : fuel_okb outs = true -> fuel_ok outs.
Proof.
  unfold fuel_okb, fuel_ok. intros H Hin. rewrite forallb_forall in H. specialize (H _ Hin). discriminate.
Qed.

(* ------------------------------------------------------------------ schedulers whose tasks have no reaction of their own
   (the actor context registers plain callbacks): time passing creates no instance *)

Definition noreact (s : sched) : Prop := forall i, t_react (inst s i) = [].

Lemma fire_noreact s i e : sinv s -> noreact s -> (i < nins s)%nat -> t_pend (inst s i) = Some e ->
  fst (fire s i e) = after_next s i e.
Proof.
  intros I NR Hi Hp. rewrite (fire_eq s i e I Hi Hp). cbv zeta.
  destruct (t_kill (inst s i)); [reflexivity|]. rewrite NR. reflexivity.
Qed.

Lemma noreact_evolves s s' : noreact s -> nins s' = nins s ->
  (forall j, (j < nins s)%nat -> evolves (inst s j) (inst s' j)) -> noreact s'.
Proof.
  intros NR Hn Ev i. destruct (Nat.lt_ge_cases i (nins s)) as [Hlt|Hge].
  - destruct (Ev i Hlt) as [(_ & _ & _ & _ & _ & Hr & _) _ _]. rewrite <- Hr. apply NR.
  - rewrite inst_out by lia. reflexivity.
Qed.

(* what any operation does to the instances that exist, in every case (also when Advance runs out of fuel) *)
Record grows (s s' : sched) : Prop := {
  gr_inv : sinv s';
  gr_n : (nins s <= nins s')%nat;
  gr_tick : s_tick s' = s_tick s;
  gr_now : s_now s <= s_now s';
  gr_ev : forall j, (j < nins s)%nat -> evolves (inst s j) (inst s' j)
}.

Lemma grows_of_trans cl s s' evs : trans cl s s' evs -> grows s s'.
Proof. intros [I N T W S E C X O]. split; auto. Qed.

Lemma grows_trans a b c : grows a b -> grows b c -> grows a c.
Proof.
  intros [I1 N1 T1 W1 E1] [I2 N2 T2 W2 E2]. split; auto; try lia; try congruence.
  intros j Hj. eapply evolves_trans; [apply E1; auto | apply E2; lia].
Qed.

Lemma advance_noreact s T : sinv s -> noreact s ->
  grows s (fst (step s (Advance T))) /\ nins (fst (step s (Advance T))) = nins s /\ noreact (fst (step s (Advance T))).
Proof.
  intros I NR. cbn [step]. destruct (Z.leb_spec T (s_now s)).
  - cbn [fst]. splits; auto. apply (grows_of_trans _ _ _ _ (trans_refl s I)).
  - pose proof (iter_pos_inv
                  (fun st : sched * list event => let '(s1, acc) := st in trans false s s1 acc /\ nins s1 = nins s /\ noreact s1)
                  (fun st : sched * list event => let '(s1, acc) := st in trans false s s1 acc /\ nins s1 = nins s /\ noreact s1)
                  (adv_step T)) as Hit.
    assert (Hstep : forall st, (let '(s1, acc) := st in trans false s s1 acc /\ nins s1 = nins s /\ noreact s1) ->
               match adv_step T st with
               | inl s' => (let '(s1, acc) := s' in trans false s s1 acc /\ nins s1 = nins s /\ noreact s1)
               | inr r => (let '(s1, acc) := r in trans false s s1 acc /\ nins s1 = nins s /\ noreact s1)
               end).
    { intros [s1 acc] (Tr & Hn & NR1). pose proof (adv_step_trans s T (s1, acc) Tr) as H0.
      unfold adv_step in *. destruct (s_stopped s1); [splits; auto; apply H0|].
      destruct (earliest (tick_ms s1) T (s_insts s1) 0 None) as [[i e]|] eqn:He; [|splits; auto; apply H0].
      apply earliest_spec in He. destruct He as [He|(Hr & Hp & Hd)]; [discriminate|].
      rewrite Nat.sub_0_r in Hp. fold (inst s1 i) in Hp.
      assert (Hi : (i < nins s1)%nat) by (unfold nins; lia).
      pose proof (fire_noreact s1 i e (tr_inv _ _ _ _ Tr) NR1 Hi Hp) as FN.
      pose proof (trans_fire s1 i e (tr_inv _ _ _ _ Tr) Hi Hp) as Tf.
      destruct (fire s1 i e) as [s' evs]. cbn [fst snd] in *. subst s'.
      assert (Hn' : nins (after_next s1 i e) = nins s1) by (unfold after_next; rewrite nins_set_inst; reflexivity).
      splits; auto; [congruence|].
      eapply noreact_evolves; [exact NR1 | exact Hn' | exact (tr_ev _ _ _ _ Tf)]. }
    specialize (Hit Hstep FUEL (s, []) (conj (trans_refl s I) (conj eq_refl NR))).
    destruct (iter_pos FUEL (adv_step T) (s, [])) as [[s1 a1]|[s1 a1]]; cbn [fst snd] in *;
      destruct Hit as (Tr & Hn & NR1).
    + splits; auto. exact (grows_of_trans _ _ _ _ Tr).
    + assert (Hnow : s_now s1 <= Z.max (s_now s1) T) by lia.
      pose proof (trans_trans _ _ _ _ _ _ _ Tr (trans_with_now s1 _ (tr_inv _ _ _ _ Tr) Hnow)) as T2.
      splits.
      * exact (grows_of_trans _ _ _ _ T2).
      * exact Hn.
      * intros i. apply NR1.
Qed.
