(* MV.C08.Properties — the statements of property C08 (scheduler part) and nothing else.
   Every theorem is closed by [exact <lemma>] and followed by Print Assumptions.

   Vocabulary (MV.C08.SchedModel): [init tick start] is a fresh chrono.Scheduler (REPAIRED code: task.timer holds the
   wheel's handle) created at instant [start] (ns) with tick [tick] (ns); [run s ops] performs a history of
   Register / Unregister / Clear / Close / Names / Advance operations and returns the final state and one output per
   operation; an [event] is one execution of a callback: instant in ms (= the wheel bucket), instance id (= position of
   the registration among all registrations), ordinal of the execution (0 = the synchronous "immediate" call made by a
   registration), and whether the callback's own unregister/re-register crashed.  [count_ev id evs] counts the
   timer-driven executions (ordinal > 0) of instance [id].  [close_ok false ops]: Close is not called on a closed
   scheduler (documented: unusable afterwards).  [fuel_ok outs]: no Advance ran into the iteration bound 2^40. *)
From MV Require Import Lib.ListX C08.SchedModel C08.SchedProofs.
Open Scope Z_scope.

(* No operation crashes: on every state reachable from a fresh scheduler, every operation returns normally, and no
   callback that unregisters / re-registers its own task crashes.  For all ticks, delays, intervals, counts (including
   forever and cron), all histories. *)
Theorem C08_no_crash : forall tick start ops,
  0 < tick -> 0 <= start -> close_ok false ops ->
  Forall out_safe (snd (run (init tick start) ops)).
Proof. exact no_crash. Qed.
Print Assumptions C08_no_crash.

(* The code AS SHIPPED (handle never stored) violates it: unregistering a pending repeated task dereferences nil. *)
Theorem C08_no_crash_as_shipped_refuted :
  exists tick start ops, 0 < tick /\ 0 <= start /\ close_ok false ops /\
    ~ Forall out_safe (snd (run (new_sched false tick start) ops)).
Proof. exact no_crash_as_shipped_refuted. Qed.
Print Assumptions C08_no_crash_as_shipped_refuted.

(* A one-shot task runs at most once, whatever else happens (re-registrations, cancellations, callbacks that touch
   the table, Clear, Close), ... *)
Theorem C08_oneshot_at_most_once : forall tick start pre n a re post,
  0 < tick -> 0 <= start -> close_ok false (pre ++ Register n (SAfter a) re :: post) ->
  fuel_ok (snd (run (init tick start) (pre ++ Register n (SAfter a) re :: post))) ->
  count_ev (nins (fst (run (init tick start) pre)))
           (all_events (snd (run (init tick start) (pre ++ Register n (SAfter a) re :: post)))) <= 1.
Proof. exact oneshot_at_most_once. Qed.
Print Assumptions C08_oneshot_at_most_once.

(* ... and exactly once if nobody touches its name, the scheduler is not cleared or closed, and time passes beyond
   its due instant (any other tasks may come, go and run in between). *)
Theorem C08_oneshot_once : forall tick start pre n a post T,
  0 < tick -> 0 <= start ->
  close_ok false (pre ++ Register n (SAfter a) [] :: post ++ [Advance T]) ->
  fuel_ok (snd (run (init tick start) (pre ++ Register n (SAfter a) [] :: post ++ [Advance T]))) ->
  has_close pre = false -> Forall (leaves_alone n) post ->
  let s1 := fst (run (init tick start) pre) in
  s_now (fst (run (init tick start) (pre ++ Register n (SAfter a) [] :: post))) < T ->
  to_ms (s_now s1 + clampd a tick) * MS <= T ->
  count_ev (nins s1)
    (all_events (snd (run (init tick start) (pre ++ Register n (SAfter a) [] :: post ++ [Advance T])))) = 1.
Proof. exact oneshot_exactly_once. Qed.
Print Assumptions C08_oneshot_once.

(* Not early, in model time (the wheel's clock): the execution happens in the wheel bucket of
   (registration instant + max(delay, tick)); that bucket begins less than one tick + 1 ms before that instant and not
   after it. *)
Theorem C08_oneshot_not_early : forall tick start pre n a re post,
  0 < tick -> 0 <= start -> close_ok false (pre ++ Register n (SAfter a) re :: post) ->
  fuel_ok (snd (run (init tick start) (pre ++ Register n (SAfter a) re :: post))) ->
  let s1 := fst (run (init tick start) pre) in
  let due := s_now s1 + clampd a tick in
  forall e, In e (all_events (snd (run (init tick start) (pre ++ Register n (SAfter a) re :: post)))) ->
    e_inst e = nins s1 -> 0 < e_ord e ->
    e_ms e = trunc (to_ms due) (Z.quot tick MS) /\
    (MS <= tick -> due - tick - MS < e_ms e * MS <= due).
Proof. exact oneshot_not_early. Qed.
Print Assumptions C08_oneshot_not_early.

(* Full statement "never before registration instant + delay" is FALSE of the timing wheel (buckets are rounded down):
   tick 10 ms, registered 1.5 ms after a bucket boundary with a delay of 25 ms, runs 18.5 ms later. *)
Theorem C08_oneshot_not_early_strict_refuted :
  exists tick start pre n a post,
    0 < tick /\ 0 <= start /\ close_ok false (pre ++ Register n (SAfter a) [] :: post) /\
    let s1 := fst (run (init tick start) pre) in
    exists e, In e (all_events (snd (run (init tick start) (pre ++ Register n (SAfter a) [] :: post)))) /\
      e_inst e = nins s1 /\ 0 < e_ord e /\ e_ms e * MS < s_now s1 + a.
Proof. exact oneshot_not_early_strict_refuted. Qed.
Print Assumptions C08_oneshot_not_early_strict_refuted.

(* A task repeated N times runs at most N times, whatever else happens, ... *)
Theorem C08_repeat_at_most_N : forall tick start pre n a i N re post,
  0 < tick -> 0 <= start -> close_ok false (pre ++ Register n (SRepeat a i N) re :: post) ->
  fuel_ok (snd (run (init tick start) (pre ++ Register n (SRepeat a i N) re :: post))) ->
  0 < N ->
  count_ev (nins (fst (run (init tick start) pre)))
           (all_events (snd (run (init tick start) (pre ++ Register n (SRepeat a i N) re :: post)))) <= N.
Proof. exact repeat_at_most_N. Qed.
Print Assumptions C08_repeat_at_most_N.

(* ... exactly N times if it is left alone until its last due instant has passed, ... *)
Theorem C08_repeat_exactly_N : forall tick start pre n a i N post T,
  0 < tick -> 0 <= start ->
  close_ok false (pre ++ Register n (SRepeat a i N) [] :: post ++ [Advance T]) ->
  fuel_ok (snd (run (init tick start) (pre ++ Register n (SRepeat a i N) [] :: post ++ [Advance T]))) ->
  has_close pre = false -> Forall (leaves_alone n) post -> 0 < N ->
  let s1 := fst (run (init tick start) pre) in
  s_now (fst (run (init tick start) (pre ++ Register n (SRepeat a i N) [] :: post))) < T ->
  (to_ms (s_now s1 + clampd a tick) + (N - 1) * Z.quot (clampd i tick) MS) * MS <= T ->
  count_ev (nins s1)
    (all_events (snd (run (init tick start) (pre ++ Register n (SRepeat a i N) [] :: post ++ [Advance T])))) = N.
Proof. exact repeat_exactly_N. Qed.
Print Assumptions C08_repeat_exactly_N.

(* ... and its k-th execution happens in the bucket of (first expiration in ms) + (k-1) (interval in ms). *)
Theorem C08_repeat_instants : forall tick start pre n a i N re post,
  0 < tick -> 0 <= start -> close_ok false (pre ++ Register n (SRepeat a i N) re :: post) ->
  fuel_ok (snd (run (init tick start) (pre ++ Register n (SRepeat a i N) re :: post))) ->
  let s1 := fst (run (init tick start) pre) in
  forall e, In e (all_events (snd (run (init tick start) (pre ++ Register n (SRepeat a i N) re :: post)))) ->
    e_inst e = nins s1 -> 0 < e_ord e ->
    e_ms e = trunc (to_ms (s_now s1 + clampd a tick) + (e_ord e - 1) * Z.quot (clampd i tick) MS) (Z.quot tick MS) /\
    (0 < N -> e_ord e <= N).
Proof. exact fire_instants. Qed.
Print Assumptions C08_repeat_instants.

(* Re-registering a name replaces the earlier task: the task that held the name never runs again, the name denotes
   the new task. *)
Theorem C08_replace : forall tick start pre n sp re post,
  0 < tick -> 0 <= start -> close_ok false (pre ++ Register n sp re :: post) ->
  fuel_ok (snd (run (init tick start) (pre ++ Register n sp re :: post))) ->
  let s1 := fst (run (init tick start) pre) in
  forall j, lookup n (s_map s1) = Some j ->
    count_ev j (all_events (snd (run s1 (Register n sp re :: post)))) = 0 /\
    lookup n (s_map (fst (step s1 (Register n sp re)))) = Some (nins s1).
Proof. exact replace. Qed.
Print Assumptions C08_replace.

(* A cancelled task never runs again: the executions over the whole history are those before the cancellation
   (so: cancelled before it was first due = it never runs). *)
Theorem C08_cancel_before_due_never_fires : forall tick start pre n post,
  0 < tick -> 0 <= start -> close_ok false (pre ++ Unregister n :: post) ->
  fuel_ok (snd (run (init tick start) (pre ++ Unregister n :: post))) ->
  let s1 := fst (run (init tick start) pre) in
  forall j, lookup n (s_map s1) = Some j ->
    count_ev j (all_events (snd (run s1 (Unregister n :: post)))) = 0 /\
    count_ev j (all_events (snd (run (init tick start) (pre ++ Unregister n :: post)))) =
      count_ev j (all_events (snd (run (init tick start) pre))) /\
    lookup n (s_map (fst (step s1 (Unregister n)))) = None.
Proof. exact cancel_never_fires. Qed.
Print Assumptions C08_cancel_before_due_never_fires.

(* Clear (restart of the owner, SchedulerPool.Put) and Close (termination of the owner) cancel every task. *)
Theorem C08_clear_close_cancel_all : forall tick start pre o post,
  0 < tick -> 0 <= start -> close_ok false (pre ++ o :: post) -> o = Clear \/ o = Close ->
  fuel_ok (snd (run (init tick start) (pre ++ o :: post))) ->
  let s1 := fst (run (init tick start) pre) in
  forall j, (j < nins s1)%nat -> count_ev j (all_events (snd (run s1 (o :: post)))) = 0.
Proof. exact clear_close_cancel_all. Qed.
Print Assumptions C08_clear_close_cancel_all.

(* Nothing is run by a timer after Close, not even tasks registered later (ordinal 0 = synchronous call made by a
   registration itself, e.g. a missed day moment). *)
Theorem C08_no_fire_after_close : forall tick start pre post,
  0 < tick -> 0 <= start -> close_ok false (pre ++ Close :: post) ->
  fuel_ok (snd (run (init tick start) (pre ++ Close :: post))) ->
  let s2 := fst (step (fst (run (init tick start) pre)) Close) in
  forall e, In e (all_events (snd (run s2 post))) -> e_ord e = 0.
Proof. exact no_fire_after_close. Qed.
Print Assumptions C08_no_fire_after_close.

(* ======================================================================================
   actor part: MV.C08.ActorModel — one actor (no children) whose context owns a scheduler (tick 10 ms); timer callbacks
   are posted to the owner as system messages and executed as turns of their own; every turn is bracketed by
   StopTask(":idle:") / AfterTask(":idle:"); restart clears the scheduler, termination closes it.
   [arun (new_actor start) ops] performs a history of ASpawn / AMsg (handler that registers, stops, blocks) / AFail
   (supervised restart) / AStopOp (termination) / AAdvance (time passes); [a_events] are the executed callbacks.
   ====================================================================================== *)
From MV Require Import C08.ActorModel C08.ActorProofs.

(* Timers never fire after the actor has terminated, and a terminated actor stays terminated: in every reachable state
   in which the actor is not alive, whatever happens next (messages, failures, stop requests, any amount of time) no
   callback is executed.  (Callbacks that were already in the mailbox when it terminated are dropped: [a_queue] is
   emptied by terminate_flow, as ProcessSystemMessage does for a terminated actor.) *)
Theorem C08_not_after_terminated : forall start ops1 ops2, 0 <= start ->
  let a1 := arun (new_actor start) ops1 in
  a_alive a1 = false -> Forall no_spawn ops2 ->
  a_events (arun a1 ops2) = a_events a1 /\ a_alive (arun a1 ops2) = false /\ a_term (arun a1 ops2) = a_term a1.
Proof. exact not_after_terminated. Qed.
Print Assumptions C08_not_after_terminated.

(* The timers die with the actor: once an actor that ever registered a timer (or has an idle deadline / expiry) has
   terminated — by a stop request, by shutdown, by its idle deadline or by its expiry — its timing wheel is stopped. *)
Theorem C08_terminated_scheduler_closed : forall start ops, 0 <= start ->
  let a := arun (new_actor start) ops in
  a_alive a = false -> (0 < nins (a_s a))%nat -> s_stopped (a_s a) = true.
Proof. exact terminated_scheduler_closed. Qed.
Print Assumptions C08_terminated_scheduler_closed.

(* Idle deadline and expiry terminate the actor only once due.  The actor goes away on its own only when the callback
   of its ":idle:" or ":expire:" task is processed; these tasks are timers of the scheduler model, and in EVERY reachable
   state: the pending ":idle:" timer (if any) expires exactly one idle deadline (at least a tick) after [a_last], the
   instant at which the latest turn of the actor ended (every message, callback and lifecycle turn stops it when it
   begins and re-arms it when it ends) — its wheel bucket starts less than one tick + 1 ms before that; the pending
   ":expire:" timer expires at or after expireTime (creation + expire duration, not reset by restarts). *)
Theorem C08_idle_expire_only_when_due : forall start ops, 0 <= start ->
  let a := arun (new_actor start) ops in
  let s := a_s a in
  forall i e, (i < nins s)%nat -> t_kill (inst s i) = false -> t_pend (inst s i) = Some e ->
    (t_name (inst s i) = N_IDLE ->
       0 < a_idle a /\ a_last a <= now a /\ e = to_ms (a_last a + clampd (a_idle a) ACTOR_TICK) /\
       a_last a + clampd (a_idle a) ACTOR_TICK - ACTOR_TICK - MS < trunc e (tick_ms s) * MS) /\
    (t_name (inst s i) = N_EXPIRE ->
       to_ms (a_expire_at a) <= e /\ a_expire_at a - ACTOR_TICK - MS < trunc e (tick_ms s) * MS).
Proof. exact deadline_only_when_due. Qed.
Print Assumptions C08_idle_expire_only_when_due.

(* ---------------------------------------------------------------- non-vacuity *)

Definition t0 : Z := 946684800000000000.   (* 2000-01-01T00:00:00Z in ns *)

(* a task repeated 3 times, registered 1.5 ms after the start of a 10 ms wheel: 15 ms, then every 30 ms *)
Example C08_example_repeat3 :
  snd (run (init 10000000 t0) [Advance (t0 + 1500000); Register 0 (SRepeat 15000000 30000000 3) []; Advance (t0 + 200000000)])
  = [ORes false []; ORes false [];
     ORes false [{| e_ms := 946684800010; e_inst := 0; e_ord := 1; e_crash := false |};
                 {| e_ms := 946684800040; e_inst := 0; e_ord := 2; e_crash := false |};
                 {| e_ms := 946684800070; e_inst := 0; e_ord := 3; e_crash := false |}]].
Proof. vm_compute. reflexivity. Qed.

(* the hypotheses of C08_repeat_exactly_N are satisfiable with other tasks registered, replaced and running meanwhile *)
Example C08_example_exactly_N_hyps :
  let pre := [Advance (t0 + 1500000); Register 1 (SRepeat 0 0 (-1)) []] in
  let post := [Advance (t0 + 22000000); Register 1 (SAfter 5000000) []; Unregister 2; Names] in
  let T := t0 + 200000000 in
  let s1 := fst (run (init 10000000 t0) pre) in
  close_ok false (pre ++ Register 0 (SRepeat 15000000 30000000 3) [] :: post ++ [Advance T]) /\
  fuel_ok (snd (run (init 10000000 t0) (pre ++ Register 0 (SRepeat 15000000 30000000 3) [] :: post ++ [Advance T]))) /\
  has_close pre = false /\ Forall (leaves_alone 0) post /\
  s_now (fst (run (init 10000000 t0) (pre ++ Register 0 (SRepeat 15000000 30000000 3) [] :: post))) < T /\
  (to_ms (s_now s1 + clampd 15000000 10000000) + (3 - 1) * Z.quot (clampd 30000000 10000000) MS) * MS <= T /\
  count_ev (nins s1) (all_events (snd (run (init 10000000 t0) (pre ++ Register 0 (SRepeat 15000000 30000000 3) [] :: post ++ [Advance T])))) = 3.
Proof.
  cbv zeta. splits.
  - cbn. splits; auto; intros; discriminate.
  - apply fuel_okb_ok. vm_compute. reflexivity.
  - reflexivity.
  - repeat constructor; cbn; discriminate.
  - vm_compute. reflexivity.
  - vm_compute. intros H; discriminate.
  - vm_compute. reflexivity.
Qed.

(* replace and cancel: the forever task 0 is replaced by a one-shot after two executions; the one-shot is cancelled *)
Example C08_example_replace_cancel :
  all_events (snd (run (init 10000000 t0)
     [Advance (t0 + 2000000); Register 0 (SRepeat 0 0 (-1)) []; Advance (t0 + 25000000); Register 0 (SAfter 25000000) [];
      Advance (t0 + 35000000); Unregister 0; Advance (t0 + 300000000)]))
  = [{| e_ms := 946684800010; e_inst := 0; e_ord := 1; e_crash := false |};
     {| e_ms := 946684800020; e_inst := 0; e_ord := 2; e_crash := false |}].
Proof. vm_compute. reflexivity. Qed.

(* the as-shipped code on the same history: the re-registration crashes, the one-shot is never registered *)
Example C08_example_as_shipped :
  snd (run (new_sched false 10000000 t0)
     [Advance (t0 + 2000000); Register 0 (SRepeat 0 0 (-1)) []; Advance (t0 + 25000000); Register 0 (SAfter 25000000) []; Names])
  = [ORes false []; ORes false [];
     ORes false [{| e_ms := 946684800010; e_inst := 0; e_ord := 1; e_crash := false |};
                 {| e_ms := 946684800020; e_inst := 0; e_ord := 2; e_crash := false |}];
     ORes true []; ONames [0%nat]].
Proof. vm_compute. reflexivity. Qed.

(* an actor with a forever-repeating task is stopped while its OnTerminate handler blocks for 30 ms: the three firings
   that become due meanwhile are dropped, nothing runs afterwards *)
Example C08_example_actor_terminates :
  let a := arun (new_actor t0)
             [AAdvance (t0 + 2000000); ASpawn 0 0; AAdvance (t0 + 12000000);
              AMsg [AReg 0 1 (SRepeat 10000000 10000000 (-1)) []] 0 []; AAdvance (t0 + 45000000);
              AStopOp false 30000000 0; AAdvance (t0 + 500000000)] in
  a_alive a = false /\ s_stopped (a_s a) = true /\ a_term a = Some 946684800075 /\
  rev (a_events a) = [{| ae_ms := 946684800020; ae_tag := 1%nat; ae_ord := 1 |};
                      {| ae_ms := 946684800030; ae_tag := 1%nat; ae_ord := 2 |};
                      {| ae_ms := 946684800040; ae_tag := 1%nat; ae_ord := 3 |}].
Proof. vm_compute. repeat split. Qed.

(* idle deadline 50 ms: each callback turn re-arms it; after the last of 2 firings the actor goes away on its own *)
Example C08_example_actor_idle :
  let a := arun (new_actor t0)
             [AAdvance (t0 + 2000000); ASpawn 50000000 0; AAdvance (t0 + 12000000);
              AMsg [AReg 0 1 (SRepeat 20000000 40000000 2) []] 0 []; AAdvance (t0 + 500000000)] in
  a_alive a = false /\ a_term a = Some 946684800120 /\ a_racy a = None /\
  rev (a_events a) = [{| ae_ms := 946684800030; ae_tag := 1%nat; ae_ord := 1 |};
                      {| ae_ms := 946684800070; ae_tag := 1%nat; ae_ord := 2 |}].
Proof. vm_compute. repeat split. Qed.

(* a reachable state with both deadline timers pending: idle 50 ms re-armed at the end of the message turn at +12 ms,
   expiry 300 ms after the creation at +2 ms *)
Example C08_example_deadlines_pending :
  let a := arun (new_actor t0) [AAdvance (t0 + 2000000); ASpawn 50000000 300000000; AAdvance (t0 + 12000000); AMsg [] 0 []] in
  a_last a = t0 + 12000000 /\ a_expire_at a = t0 + 302000000 /\
  map (fun t => (t_name t, t_kill t, t_pend t)) (filter (fun t => negb (t_kill t)) (s_insts (a_s a)))
  = [(N_EXPIRE, false, Some 946684800302); (N_IDLE, false, Some 946684800062)].
Proof. vm_compute. repeat split. Qed.

(* ---------------------------------------------------------------------------------------------------------------
   The lazy creation of the per-context scheduler (MV.C08.InitModel / InitProofs). Every registration of a timer is
   "ensure the scheduler ; load the field ; register in the object it denotes", and it is not confined to the actor's
   goroutine: ActorOf arms ":expire:" on the CHILD's context from the spawner's goroutine after OnLaunch has been posted.
   [init_state d tags]: one caller per task of [tags], all started, under initialisation discipline [d]; [reach]: every
   interleaving of their atomic steps (sync.Once statement by statement: done.Load, m.Lock, done.Load, create, store,
   done.Store, m.Unlock); [made] = scheduler objects ever created, [fld] = ctx.scheduler, [regs] = (object, task) of every
   registration, [orphaned s k t] = task t was registered in object k and the field does not hold k. Tie T3
   (harness/translate/c08init) extracts the discipline of the tree under test on every run; the search oracle is
   harness/cmd/c08init (real ActorSystem, real time, GOMAXPROCS >= 4). *)
From MV Require Import Lib.Sched C08.InitModel C08.InitProofs.

(* Under the once-guard, for any number of concurrent callers and every interleaving: at most one scheduler object is ever
   created (exactly one as soon as anything is registered or the field is set), nobody dereferences a nil field, and every
   task registered so far sits in the object the context holds — StopTask, re-registration of the name, Clear on restart
   and Close on termination, which all go through the field, reach it: no task is orphaned. *)
Theorem C08_scheduler_created_once_no_task_orphaned : forall tags st, reach (init_state DOnce tags) st ->
  nilderef (fst st) = false /\ 0 <= made (fst st) <= 1 /\
  (forall k t, In (k, t) (regs (fst st)) -> fld (fst st) = Some k) /\
  (forall k t, ~ orphaned (fst st) k t) /\
  (regs (fst st) <> [] -> made (fst st) = 1) /\
  (forall k, fld (fst st) = Some k -> k = 0 /\ made (fst st) = 1).
Proof. exact once_sound. Qed.
Print Assumptions C08_scheduler_created_once_no_task_orphaned.

(* ... and the field, once stored, never changes: the object a task was registered in stays THE scheduler of the context. *)
Theorem C08_scheduler_field_stable : forall tags st st' k, reach (init_state DOnce tags) st -> reach st st' ->
  fld (fst st) = Some k -> fld (fst st') = Some k.
Proof. exact once_field_stable. Qed.
Print Assumptions C08_scheduler_field_stable.

(* When every caller has returned, every task has been registered exactly as often as it was asked for (each caller once),
   all in object 0, which the field holds. *)
Theorem C08_scheduler_every_registration_lands : forall tags st, reach (init_state DOnce tags) st -> all_done (snd st) ->
  (forall t, cnt t (regs (fst st)) = cnt_tags t tags) /\
  (tags <> [] -> fld (fst st) = Some 0 /\ made (fst st) = 1).
Proof. exact once_all_registered. Qed.
Print Assumptions C08_scheduler_every_registration_lands.

(* "Later callers wait" is not "wait for ever": while some caller has not returned, some caller can take a step. *)
Theorem C08_scheduler_init_no_deadlock : forall tags st j l, reach (init_state DOnce tags) st ->
  nth_error (snd st) j = Some (Some l) -> exists i st' e, gstep st i tt = Some (st', e).
Proof. exact once_progress. Qed.
Print Assumptions C08_scheduler_init_no_deadlock.

(* Without the guard (`if ctx.scheduler == nil { ctx.scheduler = NewScheduler() }`, "the context is confined to the actor's
   goroutine") the two goroutines of a spawn — the owner registering "tick" from OnLaunch, the spawner arming ":expire:" —
   have a schedule after which everything has returned, TWO scheduler objects exist, the context holds the second, and
   "tick" is registered in the first: orphaned, for ever (nothing can run any more). *)
Theorem C08_scheduler_lazy_init_orphans_task_refuted :
  exists st, reach (init_state DLazy spawn_tags) st /\ all_done (snd st) /\
    made (fst st) = 2 /\ fld (fst st) = Some 1 /\ nilderef (fst st) = false /\
    regs (fst st) = [(1, T_EXPIRE); (0, T_TICK)] /\ orphaned (fst st) 0 T_TICK /\
    forall st', reach st st' -> st' = st.
Proof. exact lazy_orphans_task. Qed.
Print Assumptions C08_scheduler_lazy_init_orphans_task_refuted.

(* Tie T3: a source whose extracted facts satisfy [source_ok] — every assignment of the scheduler field creates the scheduler
   inside the function handed to Do of one sync.Once field of the context, that field is used for nothing else, every
   registration is preceded by the ensuring call and every other use is ensured or nil-checked — IS the once machine. The
   generated Instance.v proves [source_ok] of the facts of the tree under test by vm_compute on every run. *)
Theorem C08_scheduler_init_at_source : forall ws once_fields misuse us, source_ok ws once_fields misuse us = true ->
  forall tags st, reach (init_src ws once_fields misuse tags) st ->
  nilderef (fst st) = false /\ 0 <= made (fst st) <= 1 /\
  (forall k t, In (k, t) (regs (fst st)) -> fld (fst st) = Some k) /\
  (forall k t, ~ orphaned (fst st) k t) /\
  (regs (fst st) <> [] -> made (fst st) = 1) /\
  (forall k, fld (fst st) = Some k -> k = 0 /\ made (fst st) = 1).
Proof. exact at_source. Qed.
Print Assumptions C08_scheduler_init_at_source.

(* the facts the model was written from are accepted; those of the unguarded variant are not *)
Example C08_example_init_source_facts :
  source_ok model_writes model_once_fields [] model_users = true /\
  source_discipline lazy_writes [] [] = Some DLazy /\ source_ok lazy_writes [] [] model_users = false.
Proof. vm_compute. repeat split. Qed.
