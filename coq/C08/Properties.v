(* MV.C08.Properties — the statements of property C08 and nothing else. *)
From MV Require Import Lib.ListX C08.SchedModel C08.SchedProofs.
Open Scope Z_scope.

Example C08_example_repeat3 :
  snd (run (new_sched true 10000000 946684800000000000)
           [Advance 946684800001500000; Register 0 (SRepeat 15000000 30000000 3) []; Advance 946684800200000000])
  = [ORes false []; ORes false [];
     ORes false [{| e_ms := 946684800010; e_inst := 0; e_ord := 1; e_crash := false |};
                 {| e_ms := 946684800040; e_inst := 0; e_ord := 2; e_crash := false |};
                 {| e_ms := 946684800070; e_inst := 0; e_ord := 3; e_crash := false |}]].
Proof. vm_compute. reflexivity. Qed.
