(* MV.C08.ActorRun — evaluation of recorded runs of a real actor (virtual time) against MV.C08.ActorModel (tie T1).
   A case = descriptor (idle deadline, expire duration), the steps with explicit AAdvance, the callback executions
   observed (instant in ms, tag of the registration, ordinal), the instant of the final OnTerminated. *)
From Coq Require Import Uint63.
From MV Require Import Lib.ListX C08.SchedModel C08.SchedRun C08.ActorModel.
Open Scope Z_scope.

Definition aev (ms : Z) (tag : nat) (k : Z) : aevent := {| ae_ms := ms; ae_tag := tag; ae_ord := k |}.

Definition aev_leb (x y : aevent) : bool :=
  if ae_ms x <? ae_ms y then true
  else if ae_ms y <? ae_ms x then false
  else if Nat.ltb (ae_tag x) (ae_tag y) then true
  else if Nat.ltb (ae_tag y) (ae_tag x) then false
  else ae_ord x <=? ae_ord y.
Fixpoint aev_insert (x : aevent) (l : list aevent) : list aevent :=
  match l with
  | [] => [x]
  | y :: r => if aev_leb x y then x :: l else y :: aev_insert x r
  end.
Definition aev_sort (l : list aevent) : list aevent := fold_right aev_insert [] l.
Definition aev_eqb (x y : aevent) : bool :=
  (ae_ms x =? ae_ms y) && Nat.eqb (ae_tag x) (ae_tag y) && (ae_ord x =? ae_ord y).

Record acase := { acid : nat; acstart : Z; acops : list aop; acevs : list aevent; acterm : option Z }.

Definition amodel (c : acase) : actor := arun (new_actor (acstart c)) (acops c).
(* when a deadline timer shares its wheel bucket b with another timer, which of the two messages reaches the mailbox
   first is decided by the Go scheduler: such a case is compared up to b only *)
Definition acase_ok (c : acase) : bool :=
  let a := amodel c in
  match a_racy a with
  | None => list_eqb aev_eqb (aev_sort (a_events a)) (aev_sort (acevs c)) && opt_eqb Z.eqb (a_term a) (acterm c)
  | Some b => list_eqb aev_eqb (aev_sort (filter (fun e => ae_ms e <? b) (a_events a)))
                               (aev_sort (filter (fun e => ae_ms e <? b) (acevs c)))
  end.
Definition amismatches (cs : list acase) : list nat := fail_ids acase_ok acid cs.
Definition aracy (cs : list acase) : list nat := fail_ids (fun c => match a_racy (amodel c) with None => true | _ => false end) acid cs.
