(* MV.C08.ActorProofs — proofs about MV.C08.ActorModel. *)
From MV Require Import Lib.ListX C08.SchedModel C08.SchedProofs C08.ActorModel.
Open Scope Z_scope.

(* the actor's scheduler is in a good state and is not stopped while the actor lives; a dead actor has a stopped
   (or never used) scheduler and an empty mailbox *)
Record ainv (a : actor) : Prop := {
  ai_s : sinv (a_s a);
  ai_live : a_alive a = true -> s_stopped (a_s a) = false;
  ai_dead : a_alive a = false ->
            (s_stopped (a_s a) = true \/ nins (a_s a) = 0%nat) /\ a_queue a = [] /\ a_gterm a = false
}.

Tactic Notation "asimpl" :=
  cbn [a_s a_idle a_expire_at a_alive a_tags a_info a_queue a_gterm a_events a_term a_racy a_lastcb a_last
       upd_s upd_queue upd_gterm upd_racy upd_last].
Tactic Notation "asimpl" "in" "*" :=
  cbn [a_s a_idle a_expire_at a_alive a_tags a_info a_queue a_gterm a_events a_term a_racy a_lastcb a_last
       upd_s upd_queue upd_gterm upd_racy upd_last] in *.
Tactic Notation "asimpl" "in" hyp(H) :=
  cbn [a_s a_idle a_expire_at a_alive a_tags a_info a_queue a_gterm a_events a_term a_racy a_lastcb a_last
       upd_s upd_queue upd_gterm upd_racy upd_last] in H.

(* ---- pieces that only touch the scheduler through the safe API *)

Definition same_life (a a' : actor) : Prop :=
  a_alive a' = a_alive a /\ a_queue a' = a_queue a /\ a_gterm a' = a_gterm a /\ a_events a' = a_events a /\
  a_term a' = a_term a /\ s_stopped (a_s a') = s_stopped (a_s a) /\ a_idle a' = a_idle a /\ a_expire_at a' = a_expire_at a.

Lemma same_life_refl a : same_life a a. Proof. repeat split. Qed.
Lemma same_life_trans a b c : same_life a b -> same_life b c -> same_life a c.
Proof. unfold same_life. intuition congruence. Qed.

Lemma sreg_ok a n sp : sinv (a_s a) -> sinv (a_s (sreg a n sp)) /\ same_life a (sreg a n sp).
Proof.
  intros I. pose proof (register_spec n sp [] (a_s a) I) as RS. cbv zeta in RS.
  destruct RS as (I2 & _ & _ & _ & St & _). unfold sreg. asimpl. split; auto. repeat split; auto.
Qed.

Lemma sunreg_ok a n : sinv (a_s a) -> sinv (a_s (sunreg a n)) /\ same_life a (sunreg a n).
Proof.
  intros I. pose proof (unregister_sinv n (a_s a) I) as I2.
  pose proof (unregister_fields n (a_s a)) as HF. cbv zeta in HF. destruct HF as (_ & _ & _ & _ & St).
  unfold sunreg. asimpl. split; auto. repeat split; auto.
Qed.

Lemma refresh_on_ok a : sinv (a_s a) -> sinv (a_s (refresh_on a)) /\ same_life a (refresh_on a).
Proof.
  intros I. unfold refresh_on. destruct (0 <? a_idle a); [apply sunreg_ok; auto | split; auto; apply same_life_refl].
Qed.

Lemma upd_last_ok a : a_s (upd_last a) = a_s a /\ same_life a (upd_last a).
Proof. split; [reflexivity | repeat split]. Qed.

Lemma refresh_off_ok a : sinv (a_s a) -> sinv (a_s (refresh_off a)) /\ same_life a (refresh_off a).
Proof.
  intros I. unfold refresh_off. destruct (0 <? a_idle a).
  - destruct (sreg_ok a N_IDLE (SAfter (a_idle a)) I) as [I2 L2]. split; [exact I2|].
    eapply same_life_trans; [exact L2 | apply upd_last_ok].
  - split; [exact I | apply upd_last_ok].
Qed.

Lemma reg_user_ok a n tag sp re : sinv (a_s a) -> sinv (a_s (reg_user a n tag sp re)) /\ same_life a (reg_user a n tag sp re).
Proof.
  intros I. destruct (sreg_ok a (uname n) sp I) as [I2 (L1 & L2 & L3 & L4 & L5 & L6 & L7 & L8)].
  unfold reg_user. asimpl. split; auto. repeat split; auto.
Qed.

Lemma do_act_ok a x : sinv (a_s a) -> sinv (a_s (do_act a x)) /\ same_life a (do_act a x).
Proof. intros I. destruct x; cbn [do_act]; [apply reg_user_ok | apply sunreg_ok]; auto. Qed.

Lemma do_acts_ok l : forall a, sinv (a_s a) -> sinv (a_s (do_acts a l)) /\ same_life a (do_acts a l).
Proof.
  unfold do_acts. induction l as [|x r IH]; intros a I; cbn [fold_left].
  - split; auto. apply same_life_refl.
  - destruct (do_act_ok a x I) as [I1 L1]. destruct (IH _ I1) as [I2 L2]. split; auto. eapply same_life_trans; eauto.
Qed.

Lemma expire_arm_ok a : sinv (a_s a) -> sinv (a_s (expire_arm a)) /\ same_life a (expire_arm a).
Proof.
  intros I. unfold expire_arm. destruct (a_expire_at a =? 0); [split; auto; apply same_life_refl | apply sreg_ok; auto].
Qed.

(* time passing inside a handler: the mailbox grows, nothing else changes *)
Definition same_but_queue (a a' : actor) : Prop :=
  a_alive a' = a_alive a /\ a_gterm a' = a_gterm a /\ a_events a' = a_events a /\
  a_term a' = a_term a /\ s_stopped (a_s a') = s_stopped (a_s a) /\ a_idle a' = a_idle a /\ a_expire_at a' = a_expire_at a.

Lemma pass_time_ok a d : sinv (a_s a) -> sinv (a_s (pass_time a d)) /\ same_but_queue a (pass_time a d).
Proof.
  intros I. unfold pass_time. destruct (d <=? 0); [split; auto; repeat split|].
  destruct (step_safe (a_s a) (Advance (now a + d)) I ltac:(intros; discriminate)) as (I2 & _ & St).
  rewrite orb_false_r in St.
  destruct (step (a_s a) (Advance (now a + d))) as [s' o]. cbn [fst snd] in *.
  destruct o; asimpl; split; auto; repeat split; auto.
Qed.

(* ---- one callback message *)
Record turn_ok (a a' : actor) : Prop := {
  to_s : sinv (a_s a');
  to_alive : a_alive a' = a_alive a;
  to_stop : s_stopped (a_s a') = s_stopped (a_s a);
  to_queue : a_queue a' = a_queue a;
  to_term : a_term a' = a_term a
}.

Lemma turn_ok_of_same a a' : sinv (a_s a') -> same_life a a' -> turn_ok a a'.
Proof. intros I (L1 & L2 & L3 & L4 & L5 & L6 & _). split; auto. Qed.

Lemma cb_turn_ok a i : sinv (a_s a) -> turn_ok a (cb_turn a i).
Proof.
  intros I. unfold cb_turn.
  destruct (Nat.eqb (t_name (inst (a_s a) i)) N_IDLE || Nat.eqb (t_name (inst (a_s a) i)) N_EXPIRE).
  - destruct (refresh_on_ok a I) as [I1 L1].
    assert (I2 : sinv (a_s (upd_gterm (refresh_on a) true))) by exact I1.
    destruct (refresh_off_ok _ I2) as [I3 L3].
    destruct L1 as (A1 & A2 & A3 & A4 & A5 & A6 & _). destruct L3 as (B1 & B2 & B3 & B4 & B5 & B6 & _).
    split; auto; asimpl in *; congruence.
  - destruct (lookup i (a_tags a)) as [tag|]; [|apply turn_ok_of_same; auto; apply same_life_refl].
    destruct (info_of tag (a_info a)) as [inf|]; [|apply turn_ok_of_same; auto; apply same_life_refl].
    destruct (refresh_on_ok a I) as [I1 (A1 & A2 & A3 & A4 & A5 & A6 & A7 & A8)].
    set (a1 := refresh_on a) in *.
    set (a2 := {| a_s := a_s a1; a_idle := a_idle a1; a_expire_at := a_expire_at a1; a_alive := a_alive a1;
                  a_tags := a_tags a1; a_info := bump tag (a_info a1); a_queue := a_queue a1; a_gterm := a_gterm a1;
                  a_events := {| ae_ms := to_ms (now a1); ae_tag := tag; ae_ord := i_count inf + 1 |} :: a_events a1;
                  a_term := a_term a1; a_racy := a_racy a1; a_lastcb := to_ms (now a1); a_last := a_last a1 |}).
    assert (I2 : sinv (a_s a2)) by exact I1.
    assert (T2 : turn_ok a a2) by (split; auto).
    assert (T3 : turn_ok a (match find_areact (i_count inf + 1) (i_re inf) with
                             | None => a2
                             | Some ARUnreg => sunreg a2 (uname (i_name inf))
                             | Some (ARRereg tag' sp) => reg_user a2 (i_name inf) tag' sp []
                             end)).
    { destruct (find_areact (i_count inf + 1) (i_re inf)) as [[|tag' sp]|]; auto.
      - destruct (sunreg_ok a2 (uname (i_name inf)) I2) as [I3 (B1 & B2 & B3 & B4 & B5 & B6 & _)].
        destruct T2 as [_ C1 C2 C3 C4]. split; auto; congruence.
      - destruct (reg_user_ok a2 (i_name inf) tag' sp [] I2) as [I3 (B1 & B2 & B3 & B4 & B5 & B6 & _)].
        destruct T2 as [_ C1 C2 C3 C4]. split; auto; congruence. }
    destruct T3 as [I3 C1 C2 C3 C4].
    destruct (refresh_off_ok _ I3) as [I4 (B1 & B2 & B3 & B4 & B5 & B6 & _)].
    split; auto; congruence.
Qed.

(* ---- termination *)
Lemma terminate_flow_ok a busy busy2 : sinv (a_s a) -> s_stopped (a_s a) = false ->
  let a' := terminate_flow a busy busy2 in
  sinv (a_s a') /\ a_alive a' = false /\ s_stopped (a_s a') = true /\ a_queue a' = [] /\ a_gterm a' = false /\
  a_events a' = a_events a /\ a_term a' <> None.
Proof.
  intros I St. cbv zeta. unfold terminate_flow.
  destruct (refresh_on_ok a I) as [I1 (A1 & A2 & A3 & A4 & A5 & A6 & _)].
  destruct (refresh_on_ok _ I1) as [I1' (B1 & B2 & B3 & B4 & B5 & B6 & _)].
  destruct (pass_time_ok _ busy I1') as [I1'' (C1 & C2 & C3 & C4 & C5 & _)].
  destruct (refresh_off_ok _ I1'') as [I2 (D1 & D2 & D3 & D4 & D5 & D6 & _)].
  set (a2 := refresh_off (pass_time (refresh_on (refresh_on a)) busy)) in *.
  destruct (refresh_on_ok _ I2) as [I2' (E1 & E2 & E3 & E4 & E5 & E6 & _)].
  destruct (pass_time_ok _ busy2 I2') as [I2'' (F1 & F2 & F3 & F4 & F5 & _)].
  destruct (refresh_off_ok _ I2'') as [I3 (G1 & G2 & G3 & G4 & G5 & G6 & _)].
  set (a3 := refresh_off (pass_time (refresh_on a2) busy2)) in *.
  assert (St3 : s_stopped (a_s a3) = false) by congruence.
  destruct (step_safe (a_s a3) Close I3 ltac:(auto)) as (I4 & _ & St4). rewrite St3 in St4. cbn [orb is_close] in St4.
  assert (I4' : sinv (a_s (upd_s a3 (fst (step (a_s a3) Close))))) by exact I4.
  destruct (refresh_off_ok _ I4') as [I5 (H1 & H2 & H3 & H4 & H5 & H6 & _)].
  asimpl. splits; auto.
  - asimpl in H6. congruence.
  - asimpl in H4. congruence.
  - discriminate.
Qed.

(* ---- the mailbox is emptied *)
Lemma fold_cb_ok q : forall a, sinv (a_s a) -> a_queue a = [] ->
  let a' := fold_left (fun x i => if a_alive x then cb_turn x i else x) q a in
  sinv (a_s a') /\ a_alive a' = a_alive a /\ s_stopped (a_s a') = s_stopped (a_s a) /\ a_queue a' = [] /\ a_term a' = a_term a.
Proof.
  induction q as [|i r IH]; intros a I Hq; cbv zeta; cbn [fold_left]; [splits; auto|].
  destruct (a_alive a) eqn:Hal.
  - destruct (cb_turn_ok a i I) as [I1 C1 C2 C3 C4].
    destruct (IH _ I1 ltac:(congruence)) as (J1 & J2 & J3 & J4 & J5). splits; auto; congruence.
  - destruct (IH _ I Hq) as (J1 & J2 & J3 & J4 & J5). splits; auto; congruence.
Qed.

Lemma drain_ok a : sinv (a_s a) -> (a_alive a = true -> s_stopped (a_s a) = false) ->
  (a_alive a = false -> (s_stopped (a_s a) = true \/ nins (a_s a) = 0%nat) /\ a_gterm a = false) ->
  ainv (drain a).
Proof.
  intros I Hl Hd. unfold drain.
  pose proof (fold_cb_ok (a_queue a) (upd_queue a []) I eq_refl) as F. cbv zeta in F.
  set (a1 := fold_left (fun x i => if a_alive x then cb_turn x i else x) (a_queue a) (upd_queue a [])) in *.
  destruct F as (I1 & A1 & A2 & A3 & A4). asimpl in A1. asimpl in A2.
  destruct (a_alive a1) eqn:Hal1; cbn [andb].
  - destruct (a_gterm a1) eqn:Hg.
    + assert (I2 : sinv (a_s (upd_gterm a1 false))) by exact I1.
      destruct (refresh_on_ok _ I2) as [I3 (B1 & B2 & B3 & B4 & B5 & B6 & _)].
      destruct (refresh_off_ok _ I3) as [I4 (C1 & C2 & C3 & C4 & C5 & C6 & _)].
      assert (St : s_stopped (a_s (refresh_off (refresh_on (upd_gterm a1 false)))) = false).
      { rewrite C6, B6. asimpl. rewrite A2. apply Hl. congruence. }
      pose proof (terminate_flow_ok _ 0 0 I4 St) as TF. cbv zeta in TF.
      destruct TF as (T1 & T2 & T3 & T4 & T5 & _).
      split; auto; intros; try congruence; try (splits; auto).
    + split; auto; intros; try congruence. rewrite A2. apply Hl. congruence.
  - split; auto; intros; try congruence.
    assert (Hal : a_alive a = false) by congruence. destruct (Hd Hal) as [Hs Hg].
    splits; auto.
    + rewrite A2. destruct Hs as [Hs|Hs]; [left; exact Hs|].
      (* nothing was ever registered and the actor is dead: no callback ran, the scheduler is untouched *)
      right. clear -Hal Hs. subst a1.
      assert (forall q x, a_alive x = false -> fold_left (fun x i => if a_alive x then cb_turn x i else x) q x = x) as Hfix.
      { induction q as [|i r IH]; intros x Hx; cbn [fold_left]; auto. rewrite Hx. apply IH; auto. }
      rewrite Hfix by exact Hal. exact Hs.
    + subst a1.
      assert (forall q x, a_alive x = false -> fold_left (fun x i => if a_alive x then cb_turn x i else x) q x = x) as Hfix.
      { induction q as [|i r IH]; intros x Hx; cbn [fold_left]; auto. rewrite Hx. apply IH; auto. }
      rewrite Hfix by exact Hal. exact Hg.
Qed.

Lemma ainv_alive a : a_alive a = true -> sinv (a_s a) -> s_stopped (a_s a) = false -> ainv a.
Proof. intros Ha I St. split; auto; intros; congruence. Qed.

Lemma restart_flow_ok a busy busy2 : ainv a -> a_alive a = true -> ainv (restart_flow a busy busy2).
Proof.
  intros [I Hl _] Hal. specialize (Hl Hal). unfold restart_flow.
  destruct (refresh_on_ok a I) as [I01 (X1 & _ & _ & _ & _ & X6 & _)].
  destruct (refresh_off_ok _ I01) as [I0 (Y1 & _ & _ & _ & _ & Y6 & _)].
  set (a0 := refresh_off (refresh_on a)) in *.
  destruct (refresh_on_ok a0 I0) as [I1 (A1 & _ & _ & _ & _ & A6 & _)].
  destruct (refresh_on_ok _ I1) as [I1' (B1 & _ & _ & _ & _ & B6 & _)].
  destruct (pass_time_ok _ busy I1') as [I1'' (C1 & _ & _ & _ & C5 & _)].
  destruct (refresh_off_ok _ I1'') as [I2 (D1 & _ & _ & _ & _ & D6 & _)].
  set (a2 := refresh_off (pass_time (refresh_on (refresh_on a0)) busy)) in *.
  destruct (refresh_on_ok a2 I2) as [I2' (E1 & _ & _ & _ & _ & E6 & _)].
  destruct (refresh_off_ok _ I2') as [I3 (F1 & _ & _ & _ & _ & F6 & _)].
  set (a3 := refresh_off (refresh_on a2)) in *.
  destruct (refresh_on_ok a3 I3) as [I3' (G1 & _ & _ & _ & _ & G6 & _)].
  destruct (pass_time_ok _ busy2 I3') as [I3'' (H1 & _ & _ & _ & H5 & _)].
  destruct (refresh_off_ok _ I3'') as [I4 (K1 & _ & _ & _ & _ & K6 & _)].
  set (a4 := refresh_off (pass_time (refresh_on a3) busy2)) in *.
  destruct (step_safe (a_s a4) Clear I4 ltac:(intros; discriminate)) as (I5 & _ & St5). rewrite orb_false_r in St5.
  set (a5 := upd_s a4 (fst (step (a_s a4) Clear))) in *.
  assert (I5' : sinv (a_s a5)) by exact I5.
  destruct (expire_arm_ok a5 I5') as [I5'' (L1 & _ & _ & _ & _ & L6 & _)].
  destruct (refresh_off_ok _ I5'') as [I6 (M1 & _ & _ & _ & _ & M6 & _)].
  set (a6 := refresh_off (expire_arm a5)) in *.
  assert (Hal6 : a_alive a6 = true) by (unfold a5 in *; asimpl in *; congruence).
  assert (St6 : s_stopped (a_s a6) = false) by (unfold a5 in *; asimpl in *; congruence).
  pose proof (drain_ok a6 I6 ltac:(auto) ltac:(intros; congruence)) as A7.
  destruct (a_alive (drain a6)) eqn:Hal7; [|exact A7].
  destruct A7 as [I7 Hl7 _]. specialize (Hl7 Hal7).
  destruct (refresh_on_ok _ I7) as [J1 (N1 & _ & _ & _ & _ & N6 & _)].
  destruct (refresh_off_ok _ J1) as [J2 (O1 & _ & _ & _ & _ & O6 & _)].
  destruct (refresh_on_ok _ J2) as [J3 (P1 & _ & _ & _ & _ & P6 & _)].
  destruct (refresh_on_ok _ J3) as [J4 (Q1 & _ & _ & _ & _ & Q6 & _)].
  destruct (refresh_off_ok _ J4) as [J5 (R1 & _ & _ & _ & _ & R6 & _)].
  destruct (refresh_off_ok _ J5) as [J6 (S1 & _ & _ & _ & _ & S6 & _)].
  apply ainv_alive; auto; congruence.
Qed.

Lemma earliest_nil tk T : earliest tk T [] 0%nat None = None.
Proof. reflexivity. Qed.

Lemma aadv_step_ok T a : ainv a ->
  match aadv_step T a with inl a' => ainv a' | inr a' => a' = a end.
Proof.
  intros [I Hl Hd]. unfold aadv_step.
  destruct (s_stopped (a_s a)) eqn:St; [reflexivity|].
  destruct (earliest (tick_ms (a_s a)) T (s_insts (a_s a)) 0 None) as [[i e]|] eqn:He; [|reflexivity].
  pose proof He as He'. apply earliest_spec in He'. destruct He' as [He'|(Hr & Hp & Hdue)]; [discriminate|].
  rewrite Nat.sub_0_r in Hp. fold (inst (a_s a) i) in Hp.
  assert (Hi : (i < nins (a_s a))%nat) by (unfold nins; lia).
  destruct (bucket_others (a_s a) i (trunc e (tick_ms (a_s a)))) as [others dlo].
  set (a0 := if (if is_deadline (inst (a_s a) i) then others || (a_lastcb a =? trunc e (tick_ms (a_s a))) else dlo)
             then upd_racy a (trunc e (tick_ms (a_s a))) else a).
  assert (Ha0 : a_s a0 = a_s a /\ a_alive a0 = a_alive a /\ a_gterm a0 = a_gterm a).
  { unfold a0. destruct (if is_deadline _ then _ else _); auto. }
  destruct Ha0 as (E1 & E2 & E3).
  pose proof (trans_fire (a_s a) i e I Hi Hp) as Tf.
  destruct (fire (a_s a) i e) as [s' evs]. cbn [fst snd] in Tf.
  apply drain_ok; asimpl.
  - exact (tr_inv _ _ _ _ Tf).
  - intros _. rewrite (tr_stop _ _ _ _ Tf), St. reflexivity.
  - intros Hal. rewrite E2 in Hal. destruct (Hd Hal) as ([Hs|Hs] & _ & _); [congruence|].
    exfalso. unfold nins in Hs. destruct (s_insts (a_s a)); [cbn in Hr; lia | discriminate].
Qed.

Definition no_spawn (o : aop) : Prop := match o with ASpawn _ _ => False | _ => True end.

Lemma astep_ainv a o : ainv a -> ainv (astep a o).
Proof.
  intros A. pose proof A as [I Hl Hd]. assert (Hn : 0 <= now a) by (destruct I; assumption). destruct o as [idle expire|acts busy post|busy busy2|g busy busy2|T]; cbn [astep].
  - (* spawn: a fresh scheduler *)
    set (a0 := {| a_s := new_sched true ACTOR_TICK (now a); a_idle := idle;
                  a_expire_at := if 0 <? expire then now a + expire else 0; a_alive := true; a_tags := []; a_info := [];
                  a_queue := []; a_gterm := false; a_events := []; a_term := None; a_racy := None; a_lastcb := -1; a_last := now a |}).
    assert (I0 : sinv (a_s a0)) by (apply new_sched_sinv; [reflexivity | exact Hn]).
    assert (Hal0 : a_alive a0 = true) by reflexivity.
    assert (St0 : s_stopped (a_s a0) = false) by reflexivity.
    destruct (expire_arm_ok a0 I0) as [I1 (A1 & _ & _ & _ & _ & A6 & _)].
    destruct (refresh_on_ok _ I1) as [I2 (B1 & _ & _ & _ & _ & B6 & _)].
    destruct (refresh_on_ok _ I2) as [I3 (C1 & _ & _ & _ & _ & C6 & _)].
    destruct (refresh_off_ok _ I3) as [I4 (D1 & _ & _ & _ & _ & D6 & _)].
    destruct (refresh_off_ok _ I4) as [I5 (E1 & _ & _ & _ & _ & E6 & _)].
    apply ainv_alive; auto; congruence.
  - destruct (a_alive a) eqn:Hal; [|exact A]. specialize (Hl eq_refl).
    destruct (refresh_on_ok a I) as [I1 (A1 & _ & _ & _ & _ & A6 & _)].
    destruct (do_acts_ok acts _ I1) as [I2 (B1 & _ & _ & _ & _ & B6 & _)].
    destruct (pass_time_ok _ busy I2) as [I3 (C1 & _ & _ & _ & C5 & _)].
    destruct (do_acts_ok post _ I3) as [I4 (D1 & _ & _ & _ & _ & D6 & _)].
    destruct (refresh_off_ok _ I4) as [I5 (E1 & _ & _ & _ & _ & E6 & _)].
    apply drain_ok; auto; intros; congruence.
  - destruct (a_alive a) eqn:Hal; [|exact A]. apply restart_flow_ok; auto.
  - destruct (a_alive a) eqn:Hal; [|exact A]. specialize (Hl eq_refl).
    assert (H1 : sinv (a_s (if g then refresh_off (refresh_on a) else a)) /\
                 s_stopped (a_s (if g then refresh_off (refresh_on a) else a)) = false).
    { destruct g; [|auto]. destruct (refresh_on_ok a I) as [I1 (A1 & _ & _ & _ & _ & A6 & _)].
      destruct (refresh_off_ok _ I1) as [I2 (B1 & _ & _ & _ & _ & B6 & _)]. split; auto; congruence. }
    destruct H1 as [I1 St1].
    pose proof (terminate_flow_ok _ busy busy2 I1 St1) as TF. cbv zeta in TF.
    destruct TF as (T1 & T2 & T3 & T4 & T5 & _). split; auto; intros; try congruence; try (splits; auto).
  - destruct (T <=? now a); [exact A|].
    pose proof (iter_pos_inv ainv ainv (aadv_step T)) as Hit.
    assert (Hstep : forall x, ainv x -> match aadv_step T x with inl x' => ainv x' | inr r => ainv r end).
    { intros x Ax. pose proof (aadv_step_ok T x Ax) as H. destruct (aadv_step T x); [exact H | subst; exact Ax]. }
    specialize (Hit Hstep FUEL a A).
    destruct (iter_pos FUEL (aadv_step T) a) as [a'|a']; [exact Hit|].
    destruct Hit as [I' Hl' Hd'].
    assert (Hle : s_now (a_s a') <= Z.max (now a') T) by (unfold now; lia).
    pose proof (trans_with_now (a_s a') _ I' Hle) as Tw.
    split; asimpl.
    + exact (tr_inv _ _ _ _ Tw).
    + intros Hal. cbn. apply Hl'; auto.
    + intros Hal. destruct (Hd' Hal) as (H1 & H2 & H3). splits; auto.
Qed.

(* ------------------------------------------------------------------ nothing runs after the actor has terminated *)

Lemma dead_step a o : ainv a -> a_alive a = false -> no_spawn o ->
  a_events (astep a o) = a_events a /\ a_alive (astep a o) = false /\ a_term (astep a o) = a_term a.
Proof.
  intros [I Hl Hd] Hal Hns. destruct o as [idle expire|acts busy post|busy busy2|g busy busy2|T]; cbn [astep no_spawn] in *;
    try contradiction; rewrite ?Hal; auto.
  destruct (T <=? now a); auto.
  destruct (Hd Hal) as (Hs & Hq & Hg).
  assert (Hstop : aadv_step T a = inr a).
  { unfold aadv_step. destruct Hs as [Hs|Hs]; [rewrite Hs; reflexivity|].
    destruct (s_stopped (a_s a)); auto. unfold nins in Hs. destruct (s_insts (a_s a)); [reflexivity | discriminate]. }
  rewrite (iter_pos_stop (aadv_step T) a FUEL a Hstop). asimpl. auto.
Qed.

Lemma arun_ainv ops : forall a, ainv a -> ainv (arun a ops).
Proof. unfold arun. induction ops as [|o r IH]; intros a A; cbn [fold_left]; auto. apply IH. apply astep_ainv; auto. Qed.

Lemma new_actor_ainv start : 0 <= start -> ainv (new_actor start).
Proof.
  intros Hs. split; cbn.
  - apply new_sched_sinv; [reflexivity | exact Hs].
  - discriminate.
  - intros _. splits; auto.
Qed.

Theorem not_after_terminated start ops1 ops2 : 0 <= start ->
  let a1 := arun (new_actor start) ops1 in
  a_alive a1 = false -> Forall no_spawn ops2 ->
  a_events (arun a1 ops2) = a_events a1 /\ a_alive (arun a1 ops2) = false /\ a_term (arun a1 ops2) = a_term a1.
Proof.
  intros Hs a1 Hal Hns.
  assert (A1 : ainv a1) by (apply arun_ainv, new_actor_ainv; auto).
  clearbody a1. revert a1 Hal A1. induction Hns as [|o r Ho Hr IH]; intros a1 Hal A1; cbn; auto.
  destruct (dead_step a1 o A1 Hal Ho) as (E & L & T).
  unfold arun in *. cbn [fold_left].
  destruct (IH (astep a1 o) L (astep_ainv _ _ A1)) as (E2 & L2 & T2). splits; congruence.
Qed.

(* the scheduler dies with the actor: once an actor that ever registered a timer has terminated, its wheel is stopped *)
Theorem terminated_scheduler_closed start ops : 0 <= start ->
  let a := arun (new_actor start) ops in
  a_alive a = false -> (0 < nins (a_s a))%nat -> s_stopped (a_s a) = true.
Proof.
  intros Hs a Hal Hn. assert (A : ainv a) by (apply arun_ainv, new_actor_ainv; auto).
  destruct A as [_ _ Hd]. destruct (Hd Hal) as ([H|H] & _); [exact H | lia].
Qed.

(* ------------------------------------------------------------------ the deadline timers *)

(* the live ":idle:" task was registered at the end of the latest turn ([a_last]) with the idle deadline as its delay;
   the live ":expire:" task expires at or after expireTime *)
Record deadline_ok (a : actor) : Prop := {
  dk_nr : noreact (a_s a);
  dk_tick : s_tick (a_s a) = ACTOR_TICK;
  dk_last : a_last a <= s_now (a_s a);
  dk_idle : forall i, (i < nins (a_s a))%nat -> t_name (inst (a_s a) i) = N_IDLE -> t_kill (inst (a_s a) i) = false ->
              0 < a_idle a /\ t_reg (inst (a_s a) i) = a_last a /\ t_after (inst (a_s a) i) = clampd (a_idle a) ACTOR_TICK /\
              t_cron (inst (a_s a) i) = None /\ t_total (inst (a_s a) i) = 1;
  dk_exp : forall i, (i < nins (a_s a))%nat -> t_name (inst (a_s a) i) = N_EXPIRE -> t_kill (inst (a_s a) i) = false ->
              t_cron (inst (a_s a) i) = None /\ t_total (inst (a_s a) i) = 1 /\
              a_expire_at a <= t_reg (inst (a_s a) i) + t_after (inst (a_s a) i)
}.

Lemma dok_grow a a' :
  deadline_ok a -> a_last a' = a_last a -> a_idle a' = a_idle a -> a_expire_at a' = a_expire_at a ->
  grows (a_s a) (a_s a') -> noreact (a_s a') ->
  (forall i, (nins (a_s a) <= i < nins (a_s a'))%nat -> t_name (inst (a_s a') i) <> N_IDLE /\ t_name (inst (a_s a') i) <> N_EXPIRE) ->
  deadline_ok a'.
Proof.
  intros [NR Tk La Di De] HL HI HE [I N T W Ev] NR' Hnew. split; auto; try congruence; try lia.
  - intros i Hi Hname Hk. destruct (Nat.lt_ge_cases i (nins (a_s a))) as [Hlt|Hge].
    + destruct (Ev i Hlt) as [(S1 & S2 & S3 & S4 & S5 & S6 & S7 & S8) _ K].
      assert (Hk0 : t_kill (inst (a_s a) i) = false).
      { destruct (t_kill (inst (a_s a) i)) eqn:E; auto. destruct (K eq_refl). congruence. }
      destruct (Di i Hlt ltac:(congruence) Hk0) as (D1 & D2 & D3 & D4 & D5). splits; congruence.
    + destruct (Hnew i ltac:(lia)). contradiction.
  - intros i Hi Hname Hk. destruct (Nat.lt_ge_cases i (nins (a_s a))) as [Hlt|Hge].
    + destruct (Ev i Hlt) as [(S1 & S2 & S3 & S4 & S5 & S6 & S7 & S8) _ K].
      assert (Hk0 : t_kill (inst (a_s a) i) = false).
      { destruct (t_kill (inst (a_s a) i)) eqn:E; auto. destruct (K eq_refl). congruence. }
      destruct (De i Hlt ltac:(congruence) Hk0) as (D1 & D2 & D3). splits; try congruence; try (rewrite HE, <- S7, <- S2; exact D3).
    + destruct (Hnew i ltac:(lia)). contradiction.
Qed.

Lemma grows_unregister n s : sinv s -> grows s (fst (unregister n s)) /\ nins (fst (unregister n s)) = nins s.
Proof.
  intros I. split; [exact (grows_of_trans _ _ _ _ (trans_unregister n s I))|].
  pose proof (unregister_fields n s) as HF. cbv zeta in HF. tauto.
Qed.

Lemma dok_sunreg a n : sinv (a_s a) -> deadline_ok a -> deadline_ok (sunreg a n).
Proof.
  intros I D. destruct (grows_unregister n (a_s a) I) as [G Hn].
  apply (dok_grow a); auto; unfold sunreg; asimpl; auto.
  - eapply noreact_evolves; [exact (dk_nr _ D) | exact Hn | exact (gr_ev _ _ G)].
  - intros i Hi. lia.
Qed.

Lemma sreg_new a n sp : sinv (a_s a) ->
  let a' := sreg a n sp in
  grows (a_s a) (a_s a') /\ nins (a_s a') = S (nins (a_s a)) /\
  inst (a_s a') (nins (a_s a)) = new_task (a_s a) n sp [] /\
  (noreact (a_s a) -> noreact (a_s a')) /\
  (forall j, (j < nins (a_s a))%nat -> lookup n (s_map (a_s a)) = Some j -> t_kill (inst (a_s a') j) = true).
Proof.
  intros I. cbv zeta. unfold sreg. asimpl.
  destruct (trans_register n sp [] (a_s a) I) as [Tr _].
  pose proof (register_spec n sp [] (a_s a) I) as RS. cbv zeta in RS.
  destruct RS as (I2 & _ & N2 & _ & _ & _ & Hnew & Ev & Kl & _ & _).
  splits; auto.
  - exact (grows_of_trans _ _ _ _ Tr).
  - intros NR i. destruct (Nat.lt_ge_cases i (nins (a_s a))) as [Hlt|Hge].
    + destruct (Ev i Hlt) as [(_ & _ & _ & _ & _ & Hr & _) _ _]. rewrite <- Hr. apply NR.
    + destruct (Nat.eq_dec i (nins (a_s a))) as [->|Hne].
      * rewrite Hnew. unfold new_task. destruct (spec_params (s_now (a_s a)) sp) as [[[[x y] z] w] v]. reflexivity.
      * rewrite inst_out by lia. reflexivity.
Qed.

Lemma new_task_name s n sp re : t_name (new_task s n sp re) = n.
Proof. unfold new_task. destruct (spec_params (s_now s) sp) as [[[[x y] z] w] v]. reflexivity. Qed.

Lemma dok_sreg_user a n sp : sinv (a_s a) -> deadline_ok a -> n <> N_IDLE -> n <> N_EXPIRE -> deadline_ok (sreg a n sp).
Proof.
  intros I D H0 H1. pose proof (sreg_new a n sp I) as SN. cbv zeta in SN. destruct SN as (G & Hn & Hnew & NR & _).
  apply (dok_grow a); auto; try reflexivity.
  - apply NR. exact (dk_nr _ D).
  - intros i Hi. assert (i = nins (a_s a)) by lia. subst i. rewrite Hnew, new_task_name. auto.
Qed.

Lemma dok_refresh_on a : sinv (a_s a) -> deadline_ok a -> deadline_ok (refresh_on a).
Proof. intros I D. unfold refresh_on. destruct (0 <? a_idle a); auto. apply dok_sunreg; auto. Qed.

Lemma live_holder s i : sinv s -> (i < nins s)%nat -> t_kill (inst s i) = false -> lookup (t_name (inst s i)) (s_map s) = Some i.
Proof. intros [_ _ _ _ _ L _] Hi Hk. apply L; auto. Qed.

Lemma dok_refresh_off a : sinv (a_s a) -> deadline_ok a -> deadline_ok (refresh_off a).
Proof.
  intros I D. unfold refresh_off. destruct (Z.ltb_spec 0 (a_idle a)) as [Hpos|Hnp].
  - pose proof (sreg_new a N_IDLE (SAfter (a_idle a)) I) as SN. cbv zeta in SN. destruct SN as (G & Hn & Hnew & NR & Kl).
    destruct D as [NR0 Tk La Di De]. destruct G as [I2 N2 T2 W2 Ev].
    set (a1 := sreg a N_IDLE (SAfter (a_idle a))) in *.
    assert (Hs1 : a_s (upd_last a1) = a_s a1) by reflexivity.
    assert (Hst : t_name (new_task (a_s a) N_IDLE (SAfter (a_idle a)) []) = N_IDLE /\
                  t_reg (new_task (a_s a) N_IDLE (SAfter (a_idle a)) []) = s_now (a_s a) /\
                  t_after (new_task (a_s a) N_IDLE (SAfter (a_idle a)) []) = clampd (a_idle a) (s_tick (a_s a)) /\
                  t_cron (new_task (a_s a) N_IDLE (SAfter (a_idle a)) []) = None /\
                  t_total (new_task (a_s a) N_IDLE (SAfter (a_idle a)) []) = 1).
    { unfold new_task; cbn. splits; reflexivity. }
    destruct Hst as (Q1 & Q2 & Q3 & Q4 & Q5).
    assert (Hnow1 : s_now (a_s a1) = s_now (a_s a)).
    { pose proof (register_spec N_IDLE (SAfter (a_idle a)) [] (a_s a) I) as RS. cbv zeta in RS. unfold a1, sreg. asimpl. tauto. }
    split; rewrite ?Hs1.
    + apply NR; auto.
    + congruence.
    + unfold upd_last. asimpl. lia.
    + intros i Hi Hname Hk.
      change (a_last (upd_last a1)) with (s_now (a_s a1)). change (a_idle (upd_last a1)) with (a_idle a).
      destruct (Nat.lt_ge_cases i (nins (a_s a))) as [Hlt|Hge].
      * (* an older idle task that is still alive would be the holder of the name: it has just been killed *)
        exfalso. destruct (Ev i Hlt) as [(S1 & _) _ K].
        assert (Hk0 : t_kill (inst (a_s a) i) = false).
        { destruct (t_kill (inst (a_s a) i)) eqn:E; auto. destruct (K eq_refl). congruence. }
        pose proof (live_holder (a_s a) i I Hlt Hk0) as Hl. rewrite S1, Hname in Hl.
        rewrite (Kl i Hlt Hl) in Hk. discriminate.
      * assert (i = nins (a_s a)) by lia. subst i. rewrite Hnew. splits; auto; try congruence.
    + intros i Hi Hname Hk. change (a_expire_at (upd_last a1)) with (a_expire_at a).
      destruct (Nat.lt_ge_cases i (nins (a_s a))) as [Hlt|Hge].
      * destruct (Ev i Hlt) as [(S1 & S2 & S3 & S4 & S5 & S6 & S7 & S8) _ K].
        assert (Hk0 : t_kill (inst (a_s a) i) = false).
        { destruct (t_kill (inst (a_s a) i)) eqn:E; auto. destruct (K eq_refl). congruence. }
        destruct (De i Hlt ltac:(congruence) Hk0) as (D1 & D2 & D3). splits; try congruence; try (rewrite <- S7, <- S2; exact D3).
      * assert (i = nins (a_s a)) by lia. subst i. rewrite Hnew, Q1 in Hname. discriminate.
  - destruct D as [NR0 Tk La Di De]. split; auto.
    + unfold upd_last. asimpl. lia.
    + intros i Hi Hname Hk. destruct (Di i Hi Hname Hk) as (D1 & _). change (a_idle (upd_last a)) with (a_idle a) in *. lia.
Qed.

Lemma clampd_ge x tk : x <= clampd x tk.
Proof. unfold clampd. destruct (Z.ltb_spec x tk); lia. Qed.

Lemma dok_expire_arm a : sinv (a_s a) -> deadline_ok a -> deadline_ok (expire_arm a).
Proof.
  intros I D. unfold expire_arm. destruct (a_expire_at a =? 0); auto.
  pose proof (sreg_new a N_EXPIRE (SAfter (a_expire_at a - now a)) I) as SN. cbv zeta in SN. destruct SN as (G & Hn & Hnew & NR & Kl).
  destruct D as [NR0 Tk La Di De]. destruct G as [I2 N2 T2 W2 Ev].
  set (sp := SAfter (a_expire_at a - now a)) in *.
  set (a1 := sreg a N_EXPIRE sp) in *.
  assert (Hst : t_name (new_task (a_s a) N_EXPIRE sp []) = N_EXPIRE /\
                t_reg (new_task (a_s a) N_EXPIRE sp []) = s_now (a_s a) /\
                t_after (new_task (a_s a) N_EXPIRE sp []) = clampd (a_expire_at a - now a) (s_tick (a_s a)) /\
                t_cron (new_task (a_s a) N_EXPIRE sp []) = None /\
                t_total (new_task (a_s a) N_EXPIRE sp []) = 1).
  { unfold new_task, sp; cbn. splits; reflexivity. }
  destruct Hst as (Q1 & Q2 & Q3 & Q4 & Q5).
  split.
  - apply NR; auto.
  - congruence.
  - change (a_last a1) with (a_last a). lia.
  - intros i Hi Hname Hk. change (a_last a1) with (a_last a). change (a_idle a1) with (a_idle a).
    destruct (Nat.lt_ge_cases i (nins (a_s a))) as [Hlt|Hge].
    + destruct (Ev i Hlt) as [(S1 & S2 & S3 & S4 & S5 & S6 & S7 & S8) _ K].
      assert (Hk0 : t_kill (inst (a_s a) i) = false).
      { destruct (t_kill (inst (a_s a) i)) eqn:E; auto. destruct (K eq_refl). congruence. }
      destruct (Di i Hlt ltac:(congruence) Hk0) as (D1 & D2 & D3 & D4 & D5). splits; congruence.
    + assert (i = nins (a_s a)) by lia. subst i. rewrite Hnew, Q1 in Hname. discriminate.
  - intros i Hi Hname Hk. change (a_expire_at a1) with (a_expire_at a).
    destruct (Nat.lt_ge_cases i (nins (a_s a))) as [Hlt|Hge].
    + exfalso. destruct (Ev i Hlt) as [(S1 & _) _ K].
      assert (Hk0 : t_kill (inst (a_s a) i) = false).
      { destruct (t_kill (inst (a_s a) i)) eqn:E; auto. destruct (K eq_refl). congruence. }
      pose proof (live_holder (a_s a) i I Hlt Hk0) as Hl. rewrite S1, Hname in Hl.
      rewrite (Kl i Hlt Hl) in Hk. discriminate.
    + assert (i = nins (a_s a)) by lia. subst i. rewrite Hnew. splits; auto.
      rewrite Q2, Q3. pose proof (clampd_ge (a_expire_at a - now a) (s_tick (a_s a))). unfold now in *. lia.
Qed.

Lemma uname_not_deadline n : uname n <> N_IDLE /\ uname n <> N_EXPIRE.
Proof. unfold uname, N_IDLE, N_EXPIRE. split; discriminate. Qed.

Lemma dok_reg_user a n tag sp re : sinv (a_s a) -> deadline_ok a -> deadline_ok (reg_user a n tag sp re).
Proof.
  intros I D. destruct (uname_not_deadline n) as [H0 H1].
  pose proof (dok_sreg_user a (uname n) sp I D H0 H1) as [NR Tk La Di De].
  unfold reg_user. split; asimpl; auto.
Qed.

Lemma dok_do_acts l : forall a, sinv (a_s a) -> deadline_ok a -> deadline_ok (do_acts a l).
Proof.
  unfold do_acts. induction l as [|x r IH]; intros a I D; cbn [fold_left]; auto.
  destruct (do_act_ok a x I) as [I1 _]. apply IH; auto.
  destruct x; cbn [do_act]; [apply dok_reg_user | apply dok_sunreg]; auto.
Qed.

Lemma dok_pass_time a d : sinv (a_s a) -> deadline_ok a -> deadline_ok (pass_time a d).
Proof.
  intros I D. unfold pass_time. destruct (d <=? 0); auto.
  destruct (advance_noreact (a_s a) (now a + d) I (dk_nr _ D)) as (G & Hn & NR).
  assert (Hgo : forall a', a_s a' = fst (step (a_s a) (Advance (now a + d))) -> a_last a' = a_last a ->
                  a_idle a' = a_idle a -> a_expire_at a' = a_expire_at a -> deadline_ok a').
  { intros a' E1 E2 E3 E4. apply (dok_grow a); auto; rewrite ?E1; auto. intros i Hi. lia. }
  destruct (step (a_s a) (Advance (now a + d))) as [s' o]. cbn [fst] in *.
  destruct o; apply Hgo; reflexivity.
Qed.

Lemma dok_set_events a (ev : list aevent) (inf : list ainfo) (lc : Z) : deadline_ok a ->
  deadline_ok {| a_s := a_s a; a_idle := a_idle a; a_expire_at := a_expire_at a; a_alive := a_alive a;
                 a_tags := a_tags a; a_info := inf; a_queue := a_queue a; a_gterm := a_gterm a;
                 a_events := ev; a_term := a_term a; a_racy := a_racy a; a_lastcb := lc; a_last := a_last a |}.
Proof. intros [NR Tk La Di De]. split; auto. Qed.

Lemma dok_cb_turn a i : sinv (a_s a) -> deadline_ok a -> deadline_ok (cb_turn a i).
Proof.
  intros I D. unfold cb_turn.
  destruct (Nat.eqb (t_name (inst (a_s a) i)) N_IDLE || Nat.eqb (t_name (inst (a_s a) i)) N_EXPIRE).
  - destruct (refresh_on_ok a I) as [I1 _]. pose proof (dok_refresh_on a I D) as D1.
    apply dok_refresh_off; [exact I1|]. destruct D1 as [NR Tk La Di De]. split; auto.
  - destruct (lookup i (a_tags a)) as [tag|]; auto. destruct (info_of tag (a_info a)) as [inf|]; auto.
    destruct (refresh_on_ok a I) as [I1 _]. pose proof (dok_refresh_on a I D) as D1.
    set (a1 := refresh_on a) in *.
    pose proof (dok_set_events a1 ({| ae_ms := to_ms (now a1); ae_tag := tag; ae_ord := i_count inf + 1 |} :: a_events a1)
                  (bump tag (a_info a1)) (to_ms (now a1)) D1) as D2.
    match goal with |- deadline_ok (refresh_off ?x) => set (a3 := x) end.
    assert (H3 : sinv (a_s a3) /\ deadline_ok a3).
    { unfold a3. destruct (find_areact (i_count inf + 1) (i_re inf)) as [[|tag' sp]|].
      - split; [apply sunreg_ok; exact I1 | apply dok_sunreg; auto].
      - split; [apply reg_user_ok; exact I1 | apply dok_reg_user; auto].
      - split; [exact I1 | exact D2]. }
    destruct H3. apply dok_refresh_off; auto.
Qed.

Lemma close_clear_grows s o : sinv s -> o = Clear \/ (o = Close /\ s_stopped s = false) ->
  grows s (fst (step s o)) /\ nins (fst (step s o)) = nins s.
Proof.
  intros I Ho.
  assert (Hcl : o = Close -> s_stopped s = false) by (destruct Ho as [->|[-> H]]; [discriminate | auto]).
  assert (Hf : snd (step s o) <> OOutOfFuel).
  { destruct Ho as [->|[-> H]]; cbn [step]; destruct (close_all (s_map s) s) as [s' c]; [discriminate|].
    destruct c; [discriminate|]. destruct (s_stopped s'); discriminate. }
  destruct (step_trans s o I Hcl Hf) as (_ & Tr & _). split; [exact (grows_of_trans _ _ _ _ Tr)|].
  destruct (close_all_sinv s I) as (_ & Hc & _ & _ & N & _ & St & _).
  destruct Ho as [->|[-> H]]; cbn [step]; destruct (close_all (s_map s) s) as [s' c]; cbn [fst snd] in *; subst c; auto.
  rewrite St, H. exact N.
Qed.

Lemma dok_upd_s a s' : deadline_ok a -> grows (a_s a) s' -> nins s' = nins (a_s a) -> deadline_ok (upd_s a s').
Proof.
  intros D G Hn. apply (dok_grow a); auto.
  - eapply noreact_evolves; [exact (dk_nr _ D) | exact Hn | exact (gr_ev _ _ G)].
  - intros i Hi. asimpl in Hi. lia.
Qed.

Lemma dok_terminate_flow a busy busy2 : sinv (a_s a) -> s_stopped (a_s a) = false -> deadline_ok a ->
  deadline_ok (terminate_flow a busy busy2).
Proof.
  intros I St D. unfold terminate_flow.
  destruct (refresh_on_ok a I) as [I1 (_ & _ & _ & _ & _ & A6 & _)]. pose proof (dok_refresh_on a I D) as D1.
  destruct (refresh_on_ok _ I1) as [I1' (_ & _ & _ & _ & _ & B6 & _)]. pose proof (dok_refresh_on _ I1 D1) as D1'.
  destruct (pass_time_ok _ busy I1') as [I1'' (_ & _ & _ & _ & C5 & _)]. pose proof (dok_pass_time _ busy I1' D1') as D1''.
  destruct (refresh_off_ok _ I1'') as [I2 (_ & _ & _ & _ & _ & D6 & _)]. pose proof (dok_refresh_off _ I1'' D1'') as D2.
  set (a2 := refresh_off (pass_time (refresh_on (refresh_on a)) busy)) in *.
  destruct (refresh_on_ok _ I2) as [I2' (_ & _ & _ & _ & _ & E6 & _)]. pose proof (dok_refresh_on _ I2 D2) as D2'.
  destruct (pass_time_ok _ busy2 I2') as [I2'' (_ & _ & _ & _ & F5 & _)]. pose proof (dok_pass_time _ busy2 I2' D2') as D2''.
  destruct (refresh_off_ok _ I2'') as [I3 (_ & _ & _ & _ & _ & G6 & _)]. pose proof (dok_refresh_off _ I2'' D2'') as D3.
  set (a3 := refresh_off (pass_time (refresh_on a2) busy2)) in *.
  assert (St3 : s_stopped (a_s a3) = false) by congruence.
  destruct (close_clear_grows (a_s a3) Close I3 (or_intror (conj eq_refl St3))) as [G Hn].
  pose proof (dok_upd_s a3 _ D3 G Hn) as D4.
  assert (I4 : sinv (a_s (upd_s a3 (fst (step (a_s a3) Close))))) by exact (gr_inv _ _ G).
  pose proof (dok_refresh_off _ I4 D4) as [NR Tk La Di De].
  split; asimpl; auto.
Qed.

Lemma dok_fold_cb q : forall a, sinv (a_s a) -> deadline_ok a ->
  deadline_ok (fold_left (fun x i => if a_alive x then cb_turn x i else x) q a).
Proof.
  induction q as [|i r IH]; intros a I D; cbn [fold_left]; auto.
  destruct (a_alive a); [|apply IH; auto].
  destruct (cb_turn_ok a i I) as [I1 _ _ _ _]. apply IH; auto. apply dok_cb_turn; auto.
Qed.

Lemma dok_drain a : sinv (a_s a) -> (a_alive a = true -> s_stopped (a_s a) = false) -> deadline_ok a -> deadline_ok (drain a).
Proof.
  intros I Hl D. unfold drain.
  assert (D0 : deadline_ok (upd_queue a [])) by (destruct D; split; auto).
  pose proof (fold_cb_ok (a_queue a) (upd_queue a []) I eq_refl) as F. cbv zeta in F.
  pose proof (dok_fold_cb (a_queue a) (upd_queue a []) I D0) as D1.
  set (a1 := fold_left (fun x i => if a_alive x then cb_turn x i else x) (a_queue a) (upd_queue a [])) in *.
  destruct F as (I1 & A1 & A2 & A3 & A4). asimpl in A1. asimpl in A2.
  destruct (a_alive a1 && a_gterm a1) eqn:E; auto.
  apply andb_true_iff in E as [Hal Hg].
  assert (D2 : deadline_ok (upd_gterm a1 false)) by (destruct D1; split; auto).
  assert (I2 : sinv (a_s (upd_gterm a1 false))) by exact I1.
  destruct (refresh_on_ok _ I2) as [I3 (_ & _ & _ & _ & _ & B6 & _)]. pose proof (dok_refresh_on _ I2 D2) as D3.
  destruct (refresh_off_ok _ I3) as [I4 (_ & _ & _ & _ & _ & C6 & _)]. pose proof (dok_refresh_off _ I3 D3) as D4.
  apply dok_terminate_flow; auto.
  rewrite C6, B6. asimpl. rewrite A2. apply Hl. congruence.
Qed.

(* one bracketed turn that only passes time *)
Lemma turn_chain a d : sinv (a_s a) -> deadline_ok a ->
  let a' := refresh_off (pass_time (refresh_on a) d) in
  sinv (a_s a') /\ deadline_ok a' /\ a_alive a' = a_alive a /\ s_stopped (a_s a') = s_stopped (a_s a).
Proof.
  intros I D. cbv zeta.
  destruct (refresh_on_ok a I) as [I1 (A1 & _ & _ & _ & _ & A6 & _)]. pose proof (dok_refresh_on a I D) as D1.
  destruct (pass_time_ok _ d I1) as [I2 (B1 & _ & _ & _ & B5 & _)]. pose proof (dok_pass_time _ d I1 D1) as D2.
  destruct (refresh_off_ok _ I2) as [I3 (C1 & _ & _ & _ & _ & C6 & _)]. pose proof (dok_refresh_off _ I2 D2) as D3.
  splits; auto; congruence.
Qed.

Lemma pass_time_zero a : pass_time a 0 = a.
Proof. reflexivity. Qed.

Lemma dok_restart_flow a busy busy2 : ainv a -> a_alive a = true -> deadline_ok a -> deadline_ok (restart_flow a busy busy2).
Proof.
  intros [I Hl _] Hal D. specialize (Hl Hal). unfold restart_flow.
  pose proof (turn_chain a 0 I D) as T0. cbv zeta in T0. rewrite pass_time_zero in T0.
  destruct T0 as (I0 & D0 & L0 & S0). set (a0 := refresh_off (refresh_on a)) in *.
  destruct (refresh_on_ok a0 I0) as [I1 (A1 & _ & _ & _ & _ & A6 & _)]. pose proof (dok_refresh_on a0 I0 D0) as D1.
  pose proof (turn_chain _ busy I1 D1) as T2. cbv zeta in T2. destruct T2 as (I2 & D2 & L2 & S2).
  set (a2 := refresh_off (pass_time (refresh_on (refresh_on a0)) busy)) in *.
  pose proof (turn_chain a2 0 I2 D2) as T3. cbv zeta in T3. rewrite pass_time_zero in T3. destruct T3 as (I3 & D3 & L3 & S3).
  set (a3 := refresh_off (refresh_on a2)) in *.
  pose proof (turn_chain a3 busy2 I3 D3) as T4. cbv zeta in T4. destruct T4 as (I4 & D4 & L4 & S4).
  set (a4 := refresh_off (pass_time (refresh_on a3) busy2)) in *.
  destruct (close_clear_grows (a_s a4) Clear I4 (or_introl eq_refl)) as [G Hn].
  pose proof (dok_upd_s a4 _ D4 G Hn) as D5.
  set (a5 := upd_s a4 (fst (step (a_s a4) Clear))) in *.
  assert (I5 : sinv (a_s a5)) by exact (gr_inv _ _ G).
  destruct (step_safe (a_s a4) Clear I4 ltac:(intros; discriminate)) as (_ & _ & St5). rewrite orb_false_r in St5.
  destruct (expire_arm_ok a5 I5) as [I5' (E1 & _ & _ & _ & _ & E6 & _)]. pose proof (dok_expire_arm a5 I5 D5) as D5'.
  destruct (refresh_off_ok _ I5') as [I6 (F1 & _ & _ & _ & _ & F6 & _)]. pose proof (dok_refresh_off _ I5' D5') as D6.
  set (a6 := refresh_off (expire_arm a5)) in *.
  assert (Hal6 : a_alive a6 = true) by (unfold a5 in *; asimpl in *; congruence).
  assert (St6 : s_stopped (a_s a6) = false) by (unfold a5 in *; asimpl in *; congruence).
  pose proof (drain_ok a6 I6 ltac:(auto) ltac:(intros; congruence)) as A7.
  pose proof (dok_drain a6 I6 ltac:(auto) D6) as D7.
  destruct (a_alive (drain a6)) eqn:Hal7; [|exact D7].
  destruct A7 as [I7 _ _].
  pose proof (turn_chain _ 0 I7 D7) as T8. cbv zeta in T8. rewrite pass_time_zero in T8. destruct T8 as (I8 & D8 & _ & _).
  destruct (refresh_on_ok _ I8) as [I9 _]. pose proof (dok_refresh_on _ I8 D8) as D9.
  pose proof (turn_chain _ 0 I9 D9) as T10. cbv zeta in T10. rewrite pass_time_zero in T10. destruct T10 as (I10 & D10 & _ & _).
  apply dok_refresh_off; auto.
Qed.

Lemma dok_aadv_step T a : ainv a -> deadline_ok a ->
  match aadv_step T a with inl a' => deadline_ok a' | inr a' => a' = a end.
Proof.
  intros [I Hl Hd] D. unfold aadv_step.
  destruct (s_stopped (a_s a)) eqn:St; [reflexivity|].
  destruct (earliest (tick_ms (a_s a)) T (s_insts (a_s a)) 0 None) as [[i e]|] eqn:He; [|reflexivity].
  pose proof He as He'. apply earliest_spec in He'. destruct He' as [He'|(Hr & Hp & Hdue)]; [discriminate|].
  rewrite Nat.sub_0_r in Hp. fold (inst (a_s a) i) in Hp.
  assert (Hi : (i < nins (a_s a))%nat) by (unfold nins; lia).
  destruct (bucket_others (a_s a) i (trunc e (tick_ms (a_s a)))) as [others dlo].
  set (a0 := if (if is_deadline (inst (a_s a) i) then others || (a_lastcb a =? trunc e (tick_ms (a_s a))) else dlo)
             then upd_racy a (trunc e (tick_ms (a_s a))) else a).
  assert (D0 : deadline_ok a0 /\ a_s a0 = a_s a /\ a_alive a0 = a_alive a).
  { unfold a0. destruct (if is_deadline _ then _ else _); [|auto]. destruct D; splits; auto. split; auto. }
  destruct D0 as (D0 & E1 & E2).
  pose proof (fire_noreact (a_s a) i e I (dk_nr _ D) Hi Hp) as FN.
  pose proof (trans_fire (a_s a) i e I Hi Hp) as Tf.
  destruct (fire (a_s a) i e) as [s' evs]. cbn [fst snd] in *. subst s'.
  assert (Hn : nins (after_next (a_s a) i e) = nins (a_s a)) by (unfold after_next; rewrite nins_set_inst; reflexivity).
  assert (D1 : deadline_ok (upd_queue (upd_s a0 (after_next (a_s a) i e)) (map e_inst evs))).
  { assert (D1' : deadline_ok (upd_s a0 (after_next (a_s a) i e))).
    { apply dok_upd_s; auto; rewrite E1; [exact (grows_of_trans _ _ _ _ Tf) | exact Hn]. }
    destruct D1'; split; auto. }
  apply dok_drain; asimpl.
  - exact (tr_inv _ _ _ _ Tf).
  - intros _. rewrite (tr_stop _ _ _ _ Tf), St. reflexivity.
  - exact D1.
Qed.

Lemma dok_astep a o : ainv a -> deadline_ok a -> deadline_ok (astep a o).
Proof.
  intros A D. pose proof A as [I Hl Hd]. assert (Hn : 0 <= now a) by (destruct I; assumption).
  destruct o as [idle expire|acts busy post|busy busy2|g busy busy2|T]; cbn [astep].
  - set (a0 := {| a_s := new_sched true ACTOR_TICK (now a); a_idle := idle;
                  a_expire_at := if 0 <? expire then now a + expire else 0; a_alive := true; a_tags := []; a_info := [];
                  a_queue := []; a_gterm := false; a_events := []; a_term := None; a_racy := None; a_lastcb := -1; a_last := now a |}).
    assert (I0 : sinv (a_s a0)) by (apply new_sched_sinv; [reflexivity | exact Hn]).
    assert (D0 : deadline_ok a0).
    { split; unfold a0; asimpl.
      - intros [|i]; reflexivity.
      - reflexivity.
      - cbn. lia.
      - intros i Hi. unfold nins in Hi; cbn in Hi. lia.
      - intros i Hi. unfold nins in Hi; cbn in Hi. lia. }
    destruct (expire_arm_ok a0 I0) as [I1 _]. pose proof (dok_expire_arm a0 I0 D0) as D1.
    destruct (refresh_on_ok _ I1) as [I2 _]. pose proof (dok_refresh_on _ I1 D1) as D2.
    destruct (refresh_on_ok _ I2) as [I3 _]. pose proof (dok_refresh_on _ I2 D2) as D3.
    destruct (refresh_off_ok _ I3) as [I4 _]. pose proof (dok_refresh_off _ I3 D3) as D4.
    apply dok_refresh_off; auto.
  - destruct (a_alive a) eqn:Hal; [|exact D]. specialize (Hl eq_refl).
    destruct (refresh_on_ok a I) as [I1 (A1 & _ & _ & _ & _ & A6 & _)]. pose proof (dok_refresh_on a I D) as D1.
    destruct (do_acts_ok acts _ I1) as [I2 (B1 & _ & _ & _ & _ & B6 & _)]. pose proof (dok_do_acts acts _ I1 D1) as D2.
    destruct (pass_time_ok _ busy I2) as [I3 (C1 & _ & _ & _ & C5 & _)]. pose proof (dok_pass_time _ busy I2 D2) as D3.
    destruct (do_acts_ok post _ I3) as [I4 (E1 & _ & _ & _ & _ & E6 & _)]. pose proof (dok_do_acts post _ I3 D3) as D4.
    destruct (refresh_off_ok _ I4) as [I5 (F1 & _ & _ & _ & _ & F6 & _)]. pose proof (dok_refresh_off _ I4 D4) as D5.
    apply dok_drain; auto. intros _. congruence.
  - destruct (a_alive a) eqn:Hal; [|exact D]. apply dok_restart_flow; auto.
  - destruct (a_alive a) eqn:Hal; [|exact D]. specialize (Hl eq_refl).
    destruct g.
    + pose proof (turn_chain a 0 I D) as T0. cbv zeta in T0. rewrite pass_time_zero in T0. destruct T0 as (I0 & D0 & L0 & S0).
      apply dok_terminate_flow; auto. congruence.
    + apply dok_terminate_flow; auto.
  - destruct (T <=? now a); [exact D|].
    pose proof (iter_pos_inv (fun x => ainv x /\ deadline_ok x) (fun x => ainv x /\ deadline_ok x) (aadv_step T)) as Hit.
    assert (Hstep : forall x, ainv x /\ deadline_ok x ->
               match aadv_step T x with inl x' => ainv x' /\ deadline_ok x' | inr r => ainv r /\ deadline_ok r end).
    { intros x [Ax Dx]. pose proof (aadv_step_ok T x Ax) as H1. pose proof (dok_aadv_step T x Ax Dx) as H2.
      destruct (aadv_step T x); [split; auto | subst; split; auto]. }
    specialize (Hit Hstep FUEL a (conj A D)).
    destruct (iter_pos FUEL (aadv_step T) a) as [a'|a']; destruct Hit as [A' D']; [exact D'|].
    destruct A' as [I' _ _].
    assert (Hle : s_now (a_s a') <= Z.max (now a') T) by (unfold now; lia).
    pose proof (trans_with_now (a_s a') _ I' Hle) as Tw.
    apply dok_upd_s; auto. exact (grows_of_trans _ _ _ _ Tw).
Qed.

Lemma new_actor_dok start : deadline_ok (new_actor start).
Proof.
  split; cbn.
  - intros [|i]; reflexivity.
  - reflexivity.
  - lia.
  - intros i Hi. unfold nins in Hi; cbn in Hi. lia.
  - intros i Hi. unfold nins in Hi; cbn in Hi. lia.
Qed.

Lemma arun_dok ops : forall a, ainv a -> deadline_ok a -> deadline_ok (arun a ops).
Proof.
  unfold arun. induction ops as [|o r IH]; intros a A D; cbn [fold_left]; auto.
  apply IH; [apply astep_ainv | apply dok_astep]; auto.
Qed.

(* the pending idle-deadline timer expires one idle deadline after the end of the latest turn (never earlier than the
   wheel's granularity allows); the pending expiry timer expires at or after expireTime *)
Theorem deadline_only_when_due start ops : 0 <= start ->
  let a := arun (new_actor start) ops in
  let s := a_s a in
  forall i e, (i < nins s)%nat -> t_kill (inst s i) = false -> t_pend (inst s i) = Some e ->
    (t_name (inst s i) = N_IDLE ->
       0 < a_idle a /\ a_last a <= now a /\ e = to_ms (a_last a + clampd (a_idle a) ACTOR_TICK) /\
       a_last a + clampd (a_idle a) ACTOR_TICK - ACTOR_TICK - MS < trunc e (tick_ms s) * MS) /\
    (t_name (inst s i) = N_EXPIRE ->
       to_ms (a_expire_at a) <= e /\ a_expire_at a - ACTOR_TICK - MS < trunc e (tick_ms s) * MS).
Proof.
  intros Hs a s i e Hi Hk Hp.
  assert (A : ainv a) by (apply arun_ainv, new_actor_ainv; auto).
  assert (D : deadline_ok a) by (apply arun_dok; [apply new_actor_ainv; auto | apply new_actor_dok]).
  destruct A as [I _ _]. destruct D as [NR Tk La Di De]. fold s in I, NR, Tk, La, Di, De.
  pose proof I as [J _ _ Nw _ _ _]. pose proof (J i) as Jt. destruct Jt as (F0 & Hn & _ & R & Af & Iv & _).
  assert (Htm : tick_ms s = 10) by (unfold tick_ms; rewrite Tk; reflexivity).
  assert (Hgen : t_cron (inst s i) = None -> t_total (inst s i) = 1 -> e = to_ms (t_reg (inst s i) + t_after (inst s i))).
  { intros Hc Ht. destruct (Hn Hc) as (H1 & H2 & H3). specialize (H3 Hk). rewrite Hp in H3.
    destruct H3 as (T1 & Fd & Ee). specialize (H2 ltac:(lia)). assert (t_trigger (inst s i) = 1) by lia.
    rewrite Ee. unfold e1. nia. }
  assert (Hbucket : forall x, 0 <= x -> e = to_ms x -> x - ACTOR_TICK - MS < trunc e (tick_ms s) * MS).
  { intros x Hx ->. pose proof (to_ms_bounds x Hx) as B1. pose proof (to_ms_nonneg x Hx) as B0.
    rewrite Htm. pose proof (trunc_bounds (to_ms x) 10 B0 ltac:(lia)) as B2. unfold ACTOR_TICK, MS in *. lia. }
  split.
  - intros Hname. destruct (Di i Hi Hname Hk) as (D1 & D2 & D3 & D4 & D5).
    specialize (Hgen D4 D5). rewrite D2, D3 in Hgen. splits; auto.
    apply Hbucket; auto. rewrite <- D2, <- D3. lia.
  - intros Hname. destruct (De i Hi Hname Hk) as (D1 & D2 & D3).
    specialize (Hgen D1 D2).
    assert (Hmono : to_ms (a_expire_at a) <= e).
    { rewrite Hgen. unfold to_ms. apply Z.quot_le_mono; [reflexivity | exact D3]. }
    split; auto.
    pose proof (Hbucket (t_reg (inst s i) + t_after (inst s i)) ltac:(lia) Hgen). lia.
Qed.
