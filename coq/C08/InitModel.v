(* MV.C08.InitModel — layer-A machine for the LAZY CREATION of the per-context scheduler of an actor context
   (engine/vivid/actor_context.go: initScheduler and its callers) and the source facts tie T3 extracts about it.

   Every registration of a timer goes through

       func (ctx *actorContext) AfterTask(name, after, f) {       (CronTask, ImmediateCronTask, RepeatedTask, DayMomentTask alike)
           ctx.initScheduler()                                    "ensure the scheduler"
           ctx.scheduler.RegisterAfterTask(name, after, ...)      load the field ; register in the object it denotes
       }

   and is NOT confined to the actor's own goroutine: ActorOf posts OnLaunch to the new actor and THEN calls
   ctx.setExpireDuration() on the CHILD's context from the spawner's goroutine (-> AfterTask(":expire:") -> initScheduler)
   while the child's OnLaunch handler, on a dispatcher goroutine, may be registering its first task. The machine is
   parameterised by the initialisation discipline:

     DOnce   ctx.schedulerInitializer.Do(func() { ctx.scheduler = chrono.NewScheduler(...) })       sync.Once, statement by statement:
                [IFast]    if o.done.Load() == 0 {                 (fast path: done already set -> return)
                [ILock]        o.m.Lock()                          (blocks while another caller is inside)
                [ICheck]       if o.done.Load() == 0 {
                [ICreate]          <new scheduler object>
                [IStore]           ctx.scheduler = <it>
                [ISetDone]         o.done.Store(1)   }             (deferred: runs when f has returned)
                [IUnlock]      o.m.Unlock()          }
     DLazy   if ctx.scheduler == nil { ctx.scheduler = chrono.NewScheduler(...) }                   ("confined to the actor's goroutine"):
                [ILoadNil]  load the field, test nil
                [ICreate]   <new scheduler object>
                [IStore]    ctx.scheduler = <it>
     then, both:
                [IUse]      load ctx.scheduler (nil: the call dereferences nil)
                [IReg]      <that object>.Register...Task(name, ...)   (chrono.Scheduler has its own lock: one step)

   Threads: one caller per element of [tags] (the task it registers), all started at once and interleaved in every possible
   way — so also every sequential order of any number of registrations by the owner, and the two-goroutine situation
   [owner: "tick"; spawner: ":expire:"]. Ghost state: the number of scheduler objects ever created (object ids 0,1,..)
   and the list of (object, task) registrations. StopTask / re-registration / Clear (restart) / Close (termination) go
   through the field: they reach exactly the tasks registered in the object the field holds.
   sync/atomic sequentially consistent, sync.Mutex a blocking boolean, plain loads/stores separate steps.
   No proofs in this file. *)
From Coq Require Import String.
From MV Require Import Lib.ListX Lib.Sched.
Open Scope Z_scope.

Inductive disc := DOnce | DLazy.

Inductive ipc :=
| IFast (t : nat)
| ILock (t : nat)
| ICheck (t : nat)
| ILoadNil (t : nat)
| ICreate (t : nat)
| IStore (t : nat) (k : Z)
| ISetDone (t : nat)
| IUnlock (t : nat)
| IUse (t : nat)
| IReg (t : nat) (k : Z).

Inductive iev :=
| IvFast (done : bool) | IvLock | IvCheck (done : bool) | IvLoadNil (isnil : bool) | IvCreate (k : Z) | IvStore (k : Z)
| IvSetDone | IvUnlock | IvUse (k : Z) | IvNilDeref | IvReg (k : Z) (t : nat).

Record ish := {
  dsc : disc;
  fld : option Z;              (* ctx.scheduler: None = nil, Some k = the k-th scheduler object created *)
  odone : bool;                (* schedulerInitializer.done *)
  omu : bool;                  (* schedulerInitializer.m held *)
  made : Z;                    (* ghost: scheduler objects created so far *)
  regs : list (Z * nat);       (* ghost: (object, task) for every registration made, latest first *)
  nilderef : bool              (* ghost: some caller dereferenced a nil ctx.scheduler *)
}.

Definition ish0 (d : disc) : ish :=
  {| dsc := d; fld := None; odone := false; omu := false; made := 0; regs := []; nilderef := false |}.

Definition set_fld (k : Z) (s : ish) : ish :=
  {| dsc := dsc s; fld := Some k; odone := odone s; omu := omu s; made := made s; regs := regs s; nilderef := nilderef s |}.
Definition set_odone (s : ish) : ish :=
  {| dsc := dsc s; fld := fld s; odone := true; omu := omu s; made := made s; regs := regs s; nilderef := nilderef s |}.
Definition set_omu (b : bool) (s : ish) : ish :=
  {| dsc := dsc s; fld := fld s; odone := odone s; omu := b; made := made s; regs := regs s; nilderef := nilderef s |}.
Definition inc_made (s : ish) : ish :=
  {| dsc := dsc s; fld := fld s; odone := odone s; omu := omu s; made := made s + 1; regs := regs s; nilderef := nilderef s |}.
Definition add_reg (k : Z) (t : nat) (s : ish) : ish :=
  {| dsc := dsc s; fld := fld s; odone := odone s; omu := omu s; made := made s; regs := (k, t) :: regs s; nilderef := nilderef s |}.
Definition set_nilderef (s : ish) : ish :=
  {| dsc := dsc s; fld := fld s; odone := odone s; omu := omu s; made := made s; regs := regs s; nilderef := true |}.

Definition IR := (ish * option ipc * list ipc * iev)%type.

Definition istep (s : ish) (l : ipc) (_ : unit) : option IR :=
  match l with
  | IFast t => if odone s then Some (s, Some (IUse t), [], IvFast true) else Some (s, Some (ILock t), [], IvFast false)
  | ILock t => if omu s then None else Some (set_omu true s, Some (ICheck t), [], IvLock)
  | ICheck t => if odone s then Some (s, Some (IUnlock t), [], IvCheck true) else Some (s, Some (ICreate t), [], IvCheck false)
  | ILoadNil t =>
      match fld s with
      | None => Some (s, Some (ICreate t), [], IvLoadNil true)
      | Some _ => Some (s, Some (IUse t), [], IvLoadNil false)
      end
  | ICreate t => Some (inc_made s, Some (IStore t (made s)), [], IvCreate (made s))
  | IStore t k =>
      Some (set_fld k s, Some (match dsc s with DOnce => ISetDone t | DLazy => IUse t end), [], IvStore k)
  | ISetDone t => Some (set_odone s, Some (IUnlock t), [], IvSetDone)
  | IUnlock t => Some (set_omu false s, Some (IUse t), [], IvUnlock)
  | IUse t =>
      match fld s with
      | None => Some (set_nilderef s, None, [], IvNilDeref)
      | Some k => Some (s, Some (IReg t k), [], IvUse k)
      end
  | IReg t k => Some (add_reg k t s, None, [], IvReg k t)
  end.

Definition Init : machine :=
  {| shared := ish; local := ipc; Sched.choice := unit; ev := iev; tstep := istep |}.

(* the first statement of "ensure the scheduler" under each discipline *)
Definition entry (d : disc) (t : nat) : ipc := match d with DOnce => IFast t | DLazy => ILoadNil t end.

(* one caller per task, all started *)
Definition init_state (d : disc) (tags : list nat) : state Init := (ish0 d, map (fun t => Some (entry d t)) tags).

(* the two goroutines of the spawn: the owner registers "tick" from OnLaunch, the spawner arms ":expire:" *)
Definition T_TICK : nat := 0%nat.
Definition T_EXPIRE : nat := 1%nat.
Definition spawn_tags : list nat := [T_TICK; T_EXPIRE].

(* ---- observables ---- *)
Definition tag_of (l : ipc) : nat :=
  match l with
  | IFast t | ILock t | ICheck t | ILoadNil t | ICreate t | IStore t _ | ISetDone t | IUnlock t | IUse t | IReg t _ => t
  end.
(* registrations of task t *)
Fixpoint cnt (t : nat) (r : list (Z * nat)) : Z :=
  match r with
  | [] => 0
  | (_, t') :: r' => (if Nat.eqb t' t then 1 else 0) + cnt t r'
  end.
Fixpoint cnt_tags (t : nat) (ts : list nat) : Z :=
  match ts with
  | [] => 0
  | t' :: r => (if Nat.eqb t' t then 1 else 0) + cnt_tags t r
  end.
(* a registration the context cannot reach: made in an object that is not the one the field holds *)
Definition orphaned (s : ish) (k : Z) (t : nat) : Prop := In (k, t) (regs s) /\ fld s <> Some k.

(* ------------------------------------------------------------------------------------------------------------------
   Source facts (tie T3, harness/translate/c08init, go/ast over the package engine/vivid of the tree under test) *)

(* where an assignment to the scheduler field of actorContext sits *)
Inductive wsite :=
| WInOnce (once : string)   (* inside the function handed to <x>.<once>.Do(...), <once> a sync.Once field of actorContext and the
                               call a plain statement — directly in the literal, or in a method referenced only from such calls *)
| WNilGuard                 (* inside `if <x>.scheduler == nil { ... }`, not under a once *)
| WBare                     (* any other assignment *)
| WLit                      (* key of a composite literal of actorContext *)
| WAddr.                    (* &<x>.scheduler handed to something *)
Record swrite := { wfn : string; wst : wsite; wnil : bool (* the value assigned is the literal nil *) }.

(* how a use <x>.scheduler.M(...) / any other read of the field is protected *)
Inductive uguard :=
| UEnsured                  (* a call of an ensurer (a method that runs the creation) precedes it in the same function *)
| UNilChecked               (* inside `if <x>.scheduler != nil { }` or after `if <x>.scheduler == nil { return }` *)
| UBare.
Record suse := { ufn : string; umeth : string; ugd : uguard }.

Definition is_register (m : string) : bool := prefix "Register" m.

Definition once_of (w : swrite) : option string :=
  match wst w with WInOnce f => if wnil w then None else Some f | _ => None end.

(* Some DOnce: at least one assignment, every assignment creates the scheduler under one and the same sync.Once field of the
   context, which is used for nothing but Do; Some DLazy: some assignment is outside a once; None: no assignment at all *)
Definition source_discipline (ws : list swrite) (once_fields misuse : list string) : option disc :=
  match ws with
  | [] => None
  | w :: _ =>
      match once_of w with
      | Some f =>
          if existsb (String.eqb f) once_fields && forallb (fun w' => match once_of w' with Some f' => String.eqb f f' | None => false end) ws
             && match misuse with [] => true | _ => false end
          then Some DOnce else Some DLazy
      | None => Some DLazy
      end
  end.

(* every registration is "ensure ; use", every other use is ensured or nil-checked *)
Definition users_ok (us : list suse) : bool :=
  existsb (fun u => is_register (umeth u)) us &&
  forallb (fun u => match ugd u with
                    | UEnsured => true
                    | UNilChecked => negb (is_register (umeth u))
                    | UBare => false
                    end) us.

Definition source_ok (ws : list swrite) (once_fields misuse : list string) (us : list suse) : bool :=
  match source_discipline ws once_fields misuse with
  | Some DOnce => users_ok us
  | _ => false
  end.

(* the machine the source is (a source without any creation is mapped to the lazy machine: nothing is claimed of it) *)
Definition init_src (ws : list swrite) (once_fields misuse : list string) (tags : list nat) : state Init :=
  init_state (match source_discipline ws once_fields misuse with Some d => d | None => DLazy end) tags.

(* the model's own description of the source it was written from / of the seeded change *)
Definition model_writes : list swrite := [ {| wfn := "initScheduler"; wst := WInOnce "schedulerInitializer"; wnil := false |} ].
Definition model_once_fields : list string := ["schedulerInitializer"%string].
Definition model_users : list suse :=
  [ {| ufn := "AfterTask"; umeth := "RegisterAfterTask"; ugd := UEnsured |};
    {| ufn := "StopTask"; umeth := "UnregisterTask"; ugd := UNilChecked |};
    {| ufn := "tryRestarted"; umeth := "Clear"; ugd := UNilChecked |};
    {| ufn := "tryTerminated"; umeth := "Close"; ugd := UNilChecked |} ].
Definition lazy_writes : list swrite := [ {| wfn := "initScheduler"; wst := WNilGuard; wnil := false |} ].
