(* MV.C06.RemoteWatchRun — recorded runs of two linked REAL actor systems against MV.C06.RemoteWatchModel (tie T1).
   The harness (harness/cmd/c06remote) records, after EVERY operation (run to quiescence on both nodes), how many
   OnTerminated naming the target each of the eight candidate watchers has handled so far; the model must show the
   same eight numbers after the same operation.  A case carries the recorded numbers as increments: for every
   operation the positions (in [rw_all]) of the watchers whose number went up during it, ascending, a position
   repeated once per notice. *)
From MV Require Import Lib.ListX C06.RemoteWatchModel.
Open Scope nat_scope.

(* the eight recording actors: name 0 = "p" (on node 0 the parent of the target), names 1..3 = "w1".."w3" *)
Definition w00 : wid := (0, 0).  Definition w01 : wid := (0, 1).  Definition w02 : wid := (0, 2).  Definition w03 : wid := (0, 3).
Definition w10 : wid := (1, 0).  Definition w11 : wid := (1, 1).  Definition w12 : wid := (1, 2).  Definition w13 : wid := (1, 3).
Definition rw_all : list wid := [w00; w01; w02; w03; w10; w11; w12; w13].

Definition rw_view (s : rstate) : list nat := map (fun w => notices w s) rw_all.

(* positions whose number grew from [old] to [new], each (new - old) times; a number that shrank, or views of different
   lengths, give a position out of range (no recorded increment list can match) *)
Fixpoint rw_delta (i : nat) (old new : list nat) : list nat :=
  match old, new with
  | [], [] => []
  | a :: old', b :: new' => (if b <? a then [99] else repeat i (b - a)) ++ rw_delta (S i) old' new'
  | _, _ => [99]
  end.

Fixpoint rw_trace (key : wid -> wid) (s : rstate) (ops : list rop) : list (list nat) :=
  match ops with
  | [] => []
  | o :: r => let s' := rstep key s o in rw_delta 0 (rw_view s) (rw_view s') :: rw_trace key s' r
  end.

Record rwcase := { rwid : nat; rwabsent : bool; rwops : list rop; rwimpl : list (list nat) }.

Definition rwcase_ok (c : rwcase) : bool :=
  list_eqb (list_eqb Nat.eqb) (rw_trace key_full (rinit (rwabsent c)) (rwops c)) (rwimpl c).

Definition rwmismatches (cs : list rwcase) : list nat := fail_ids rwcase_ok rwid cs.

(* the increments determine the views (and vice versa): the comparison loses nothing *)
Example rw_delta_example : rw_delta 0 [0; 1; 0; 2] [1; 1; 0; 4] = [0; 3; 3].
Proof. reflexivity. Qed.
