(* MV.C06.RemoteWatchProofs — the counting clause of C06 for watchers on two nodes, for EVERY operation sequence.

   Method: the whole-table model (RemoteWatchModel.rstep) is shown to behave, from the point of view of one watcher
   w, like a three-field automaton [wstep w] (phase of the target, "w is in the table", notices handled by w) that
   does not look at the requests of anybody else ([abs_step]; needs the table invariant [tab_ok] and an INJECTIVE
   key function).  Everything else is list induction over that automaton. *)
From MV Require Import Lib.ListX C06.RemoteWatchModel C06.RemoteWatchRun.
Open Scope nat_scope.

(* ------------------------------------------------------------------------------------------------ identities *)

Lemma wid_eqb_eq a b : wid_eqb a b = true <-> a = b.
Proof.
  destruct a as [a1 a2], b as [b1 b2]; unfold wid_eqb; simpl.
  rewrite andb_true_iff, !Nat.eqb_eq. split.
  - intros [-> ->]; reflexivity.
  - intros H; inversion H; auto.
Qed.

Lemma wid_eqb_refl a : wid_eqb a a = true.
Proof. apply wid_eqb_eq; reflexivity. Qed.

Lemma wid_eqb_neq a b : wid_eqb a b = false <-> a <> b.
Proof.
  split.
  - intros H E. apply wid_eqb_eq in E. congruence.
  - intros H. destruct (wid_eqb a b) eqn:E; auto. apply wid_eqb_eq in E. contradiction.
Qed.

Lemma wid_eqb_sym a b : wid_eqb a b = wid_eqb b a.
Proof.
  destruct (wid_eqb a b) eqn:E.
  - apply wid_eqb_eq in E; subst. symmetry; apply wid_eqb_refl.
  - apply wid_eqb_neq in E. symmetry. apply wid_eqb_neq. congruence.
Qed.

Definition injective (key : wid -> wid) : Prop := forall a b, key a = key b -> a = b.

Lemma key_full_injective : injective key_full.
Proof. intros a b H; exact H. Qed.

Lemma key_eqb key (Hinj : injective key) a b : wid_eqb (key a) (key b) = wid_eqb a b.
Proof.
  destruct (wid_eqb a b) eqn:E.
  - apply wid_eqb_eq in E; subst. apply wid_eqb_refl.
  - apply wid_eqb_neq in E. apply wid_eqb_neq. intros H. apply E, Hinj, H.
Qed.

(* ------------------------------------------------------------------------------------------------ counting *)

Lemma count_of_app w l1 l2 : count_of w (l1 ++ l2) = count_of w l1 + count_of w l2.
Proof. unfold count_of. rewrite filter_app, app_length. reflexivity. Qed.

Lemma count_of_cons w v l : count_of w (v :: l) = (if wid_eqb w v then 1 else 0) + count_of w l.
Proof. unfold count_of; simpl. destruct (wid_eqb w v); reflexivity. Qed.

Lemma count_of_filter_other w p l :
  w <> p -> count_of w (filter (fun v => negb (wid_eqb v p)) l) = count_of w l.
Proof.
  intros Hw. induction l as [|v l IH]; simpl; auto.
  destruct (wid_eqb v p) eqn:E; simpl.
  - apply wid_eqb_eq in E; subst v. rewrite count_of_cons.
    replace (wid_eqb w p) with false by (symmetry; apply wid_eqb_neq; exact Hw). simpl. exact IH.
  - rewrite !count_of_cons, IH. reflexivity.
Qed.

Lemma count_of_filter_self p l : count_of p (filter (fun v => negb (wid_eqb v p)) l) = 0.
Proof.
  induction l as [|v l IH]; simpl; auto.
  destruct (wid_eqb v p) eqn:E; simpl; auto.
  rewrite count_of_cons, IH. rewrite wid_eqb_sym, E. reflexivity.
Qed.

(* ------------------------------------------------------------------------------------------------ the table *)

Definition tab_ok (key : wid -> wid) (t : list (wid * wid)) : Prop :=
  NoDup (map fst t) /\ forall k v, In (k, v) t -> k = key v.

Lemma tab_put_in k v t e : In e (tab_put k v t) -> e = (k, v) \/ In e t.
Proof.
  induction t as [|e0 t IH]; simpl.
  - intros [H|[]]; auto.
  - destruct (wid_eqb (fst e0) k); simpl; intros [H|H]; auto. destruct (IH H); auto.
Qed.

Lemma tab_put_keys k v t k' : In k' (map fst (tab_put k v t)) -> k' = k \/ In k' (map fst t).
Proof.
  intros H. apply in_map_iff in H as [e [He Hin]]. apply tab_put_in in Hin as [->|Hin].
  - left; subst; reflexivity.
  - right. subst k'. apply in_map. exact Hin.
Qed.

Lemma tab_put_nodup k v t : NoDup (map fst t) -> NoDup (map fst (tab_put k v t)).
Proof.
  induction t as [|e0 t IH]; simpl; intros H.
  - constructor; [intros [] | constructor].
  - inversion H as [|? ? Hn Hd]; subst. destruct (wid_eqb (fst e0) k) eqn:E; simpl.
    + apply wid_eqb_eq in E. rewrite <- E. constructor; auto.
    + constructor; auto. intros Hin. apply tab_put_keys in Hin as [Hk|Hin]; auto.
      apply wid_eqb_neq in E. auto.
Qed.

Lemma tab_put_ok key v t : tab_ok key t -> tab_ok key (tab_put (key v) v t).
Proof.
  intros [Hd Hk]. split.
  - apply tab_put_nodup; exact Hd.
  - intros k' v' Hin. apply tab_put_in in Hin as [H|H].
    + inversion H; reflexivity.
    + apply Hk; exact H.
Qed.

Lemma tab_del_ok key k t : tab_ok key t -> tab_ok key (tab_del k t).
Proof.
  intros [Hd Hk]. split.
  - unfold tab_del. clear Hk. induction t as [|e t IH]; simpl; auto.
    inversion Hd as [|? ? Hn Hd']; subst. destruct (negb (wid_eqb (fst e) k)); simpl; auto.
    constructor; auto. intros Hin. apply Hn. apply in_map_iff in Hin as [x [Hx Hin]].
    apply filter_In in Hin as [Hin _]. rewrite <- Hx. apply in_map. exact Hin.
  - intros k' v' Hin. apply filter_In in Hin as [Hin _]. apply Hk; exact Hin.
Qed.

Lemma tab_has_put k v t k' : tab_has k' (tab_put k v t) = wid_eqb k k' || tab_has k' t.
Proof.
  induction t as [|e t IH]; simpl.
  - reflexivity.
  - destruct (wid_eqb (fst e) k) eqn:E; simpl.
    + apply wid_eqb_eq in E. rewrite E. destruct (wid_eqb k k'); reflexivity.
    + rewrite IH. destruct (wid_eqb (fst e) k'), (wid_eqb k k'); reflexivity.
Qed.

Lemma tab_has_del k t k' : tab_has k' (tab_del k t) = negb (wid_eqb k k') && tab_has k' t.
Proof.
  induction t as [|e t IH]; simpl.
  - destruct (wid_eqb k k'); reflexivity.
  - destruct (wid_eqb (fst e) k) eqn:E; simpl.
    + rewrite IH. apply wid_eqb_eq in E. rewrite E. destruct (wid_eqb k k'); simpl; auto.
    + rewrite IH. destruct (wid_eqb (fst e) k') eqn:E2; simpl.
      * apply wid_eqb_eq in E2. rewrite <- E2. rewrite wid_eqb_sym, E. reflexivity.
      * reflexivity.
Qed.

Lemma tab_has_false_count key (Hinj : injective key) w t :
  (forall k v, In (k, v) t -> k = key v) -> ~ In (key w) (map fst t) -> count_of w (map snd t) = 0.
Proof.
  induction t as [|[k v] t IH]; simpl; intros Hk Hn; auto.
  rewrite count_of_cons. rewrite IH.
  - destruct (wid_eqb w v) eqn:E; auto. apply wid_eqb_eq in E; subst v.
    exfalso. apply Hn. left. apply (Hk k w). left; reflexivity.
  - intros k' v' H. apply Hk. right; exact H.
  - intros H. apply Hn. right; exact H.
Qed.

(* a table entry per watcher: w is notified by the loop of tryTerminated exactly once iff it is in the table *)
Lemma tab_count key (Hinj : injective key) w t :
  tab_ok key t -> count_of w (map snd t) = if tab_has (key w) t then 1 else 0.
Proof.
  intros [Hd Hk]. induction t as [|[k v] t IH]; simpl; auto.
  inversion Hd as [|? ? Hn Hd']; subst. rewrite count_of_cons.
  assert (Hkv : k = key v) by (apply Hk; left; reflexivity). subst k.
  rewrite (key_eqb key Hinj). rewrite (wid_eqb_sym v w).
  destruct (wid_eqb w v) eqn:E; simpl.
  - apply wid_eqb_eq in E; subst v.
    rewrite (tab_has_false_count key Hinj w t); auto. intros k' v' H. apply Hk. right; exact H.
  - apply IH; auto. intros k' v' H. apply Hk. right; exact H.
Qed.

(* ------------------------------------------------------------------------------------------------ one watcher's view *)

Record wst := { w_ph : rphase; w_on : bool; w_n : nat }.

Definition w_set_on (a : wst) (b : bool) : wst := {| w_ph := w_ph a; w_on := b; w_n := w_n a |}.
Definition w_bump (a : wst) (k : nat) : wst := {| w_ph := w_ph a; w_on := w_on a; w_n := k + w_n a |}.
Definition w_set_ph (a : wst) (p : rphase) : wst := {| w_ph := p; w_on := w_on a; w_n := w_n a |}.

(* what watcher w sees of one operation: only its own requests and the two termination steps matter *)
Definition wstep (w : wid) (a : wst) (o : rop) : wst :=
  match o with
  | RWatch v =>
      if wid_eqb v w then
        match w_ph a with
        | RAlive => if wid_eqb w rw_parent then a else w_set_on a true
        | RTerminating => if wid_eqb w rw_parent then a else w_bump a 1
        | RGone => w_bump a 1
        end
      else a
  | RUnwatch v =>
      if wid_eqb v w then match w_ph a with RGone => a | _ => w_set_on a false end else a
  | RTermBegin => match w_ph a with RAlive => w_set_ph a RTerminating | _ => a end
  | RTermEnd =>
      match w_ph a with
      | RTerminating => w_set_ph (w_bump a (if wid_eqb w rw_parent then 1 else if w_on a then 1 else 0)) RGone
      | _ => a
      end
  end.

Definition wrun (w : wid) (a : wst) (ops : list rop) : wst := fold_left (wstep w) ops a.
Arguments wrun : simpl never.

Definition winit (absent : bool) : wst := {| w_ph := if absent then RGone else RAlive; w_on := false; w_n := 0 |}.

Definition abs (key : wid -> wid) (w : wid) (s : rstate) : wst :=
  {| w_ph := r_ph s; w_on := tab_has (key w) (r_tab s); w_n := notices w s |}.

Lemma ok_step key s o : tab_ok key (r_tab s) -> tab_ok key (r_tab (rstep key s o)).
Proof.
  intros H. destruct o as [v|v| |]; simpl; destruct (r_ph s); simpl; auto;
    try (destruct (wid_eqb v rw_parent); simpl; auto);
    try (apply tab_put_ok; exact H); try (apply tab_del_ok; exact H).
Qed.

Lemma abs_step key (Hinj : injective key) w s o :
  tab_ok key (r_tab s) -> abs key w (rstep key s o) = wstep w (abs key w s) o.
Proof.
  intros Hok. unfold abs. destruct o as [v|v| |]; simpl.
  - (* Watch v *)
    destruct (r_ph s) eqn:Hp; simpl.
    + destruct (wid_eqb v w) eqn:Evw.
      * apply wid_eqb_eq in Evw; subst v. destruct (wid_eqb w rw_parent) eqn:Ep; simpl; rewrite ?Hp; auto.
        unfold w_set_on; simpl. rewrite tab_has_put, wid_eqb_refl. reflexivity.
      * destruct (wid_eqb v rw_parent); simpl; rewrite ?Hp; auto.
        rewrite tab_has_put, (key_eqb key Hinj), Evw. reflexivity.
    + destruct (wid_eqb v w) eqn:Evw.
      * apply wid_eqb_eq in Evw; subst v. destruct (wid_eqb w rw_parent) eqn:Ep; simpl; rewrite ?Hp; auto.
        unfold w_bump, notices; simpl. rewrite count_of_cons, wid_eqb_refl. reflexivity.
      * destruct (wid_eqb v rw_parent); simpl; rewrite ?Hp; auto.
        unfold notices; simpl. rewrite count_of_cons, (wid_eqb_sym w v), Evw. reflexivity.
    + unfold notices; simpl. rewrite count_of_cons, (wid_eqb_sym w v). destruct (wid_eqb v w); simpl; rewrite ?Hp; reflexivity.
  - (* Unwatch v *)
    destruct (r_ph s) eqn:Hp; simpl; rewrite ?Hp; try rewrite tab_has_del, (key_eqb key Hinj);
      destruct (wid_eqb v w); simpl; rewrite ?Hp; reflexivity.
  - (* TermBegin *)
    destruct (r_ph s) eqn:Hp; simpl; rewrite ?Hp; reflexivity.
  - (* TermEnd *)
    destruct (r_ph s) eqn:Hp; simpl; rewrite ?Hp; try reflexivity.
    unfold w_set_ph, w_bump, notices; simpl. f_equal.
    rewrite count_of_cons, count_of_app. destruct (wid_eqb w rw_parent) eqn:Ep.
    + apply wid_eqb_eq in Ep; subst w. rewrite count_of_filter_self. reflexivity.
    + apply wid_eqb_neq in Ep. rewrite count_of_filter_other by exact Ep.
      rewrite (tab_count key Hinj w _ Hok). reflexivity.
Qed.

Lemma abs_run key (Hinj : injective key) w : forall ops s,
  tab_ok key (r_tab s) -> abs key w (rrun key s ops) = wrun w (abs key w s) ops.
Proof.
  unfold wrun. induction ops as [|o r IH]; intros s Hok; simpl; auto.
  rewrite IH by (apply ok_step; exact Hok). rewrite abs_step by assumption. reflexivity.
Qed.

Lemma tab_ok_nil key : tab_ok key [].
Proof. split; [constructor | intros k v []]. Qed.

(* the whole-table model, seen by w, IS w's automaton *)
Theorem notices_wrun key (Hinj : injective key) w absent ops :
  notices w (rrun key (rinit absent) ops) = w_n (wrun w (winit absent) ops).
Proof.
  pose proof (abs_run key Hinj w ops (rinit absent) (tab_ok_nil key)) as H.
  apply (f_equal w_n) in H. simpl in H. exact H.
Qed.

(* ------------------------------------------------------------------------------------------------ vocabulary of the theorems *)

Definition is_term (o : rop) : bool := match o with RTermBegin | RTermEnd => true | _ => false end.
(* no termination step in l *)
Definition calm (l : list rop) : Prop := forallb (fun o => negb (is_term o)) l = true.

Definition is_watch (w : wid) (o : rop) : bool := match o with RWatch v => wid_eqb v w | _ => false end.
Definition is_unwatch (w : wid) (o : rop) : bool := match o with RUnwatch v => wid_eqb v w | _ => false end.
Definition nwatch (w : wid) (l : list rop) : nat := length (filter (is_watch w) l).
Definition nunwatch (w : wid) (l : list rop) : nat := length (filter (is_unwatch w) l).

Inductive req := ReqWatch | ReqUnwatch.
Definition req_of (w : wid) (o : rop) : option req :=
  match o with
  | RWatch v => if wid_eqb v w then Some ReqWatch else None
  | RUnwatch v => if wid_eqb v w then Some ReqUnwatch else None
  | _ => None
  end.
(* the last request of w in l (None: w asked for nothing) *)
Fixpoint last_req (w : wid) (l : list rop) : option req :=
  match l with
  | [] => None
  | o :: r => match last_req w r with Some q => Some q | None => req_of w o end
  end.

(* w's own requests and the termination steps: all that w can depend on *)
Definition concerns (w : wid) (o : rop) : bool :=
  match o with RWatch v | RUnwatch v => wid_eqb v w | _ => true end.
Definition proj (w : wid) (l : list rop) : list rop := filter (concerns w) l.

(* the sequential histories with one termination: requests before it, racing with it, after it *)
Definition history (pre mid post : list rop) : list rop := pre ++ RTermBegin :: mid ++ RTermEnd :: post.

(* ------------------------------------------------------------------------------------------------ the automaton, phase by phase *)

Definition on_after (q : option req) (b : bool) : bool :=
  match q with Some ReqWatch => true | Some ReqUnwatch => false | None => b end.

Lemma calm_cons o l : calm (o :: l) -> is_term o = false /\ calm l.
Proof.
  unfold calm; simpl. intros H. apply andb_true_iff in H as [H1 H2]. split; auto.
  destruct (is_term o); auto; discriminate.
Qed.

Lemma wrun_alive w : w <> rw_parent -> forall l a, calm l -> w_ph a = RAlive ->
  wrun w a l = {| w_ph := RAlive; w_on := on_after (last_req w l) (w_on a); w_n := w_n a |}.
Proof.
  intros Hw. apply wid_eqb_neq in Hw. unfold wrun.
  induction l as [|o r IH]; intros a Hc Hp; simpl.
  - destruct a; simpl in *; subst; reflexivity.
  - apply calm_cons in Hc as [Ht Hc].
    assert (Hs : w_ph (wstep w a o) = RAlive /\ w_n (wstep w a o) = w_n a /\ w_on (wstep w a o) = on_after (req_of w o) (w_on a)).
    { destruct o as [v|v| |]; simpl in *; try discriminate; rewrite Hp, ?Hw; destruct (wid_eqb v w); simpl; auto. }
    destruct Hs as [Hp' [Hn' Ho']]. rewrite IH by assumption. rewrite Hn', Ho'.
    destruct (last_req w r) as [[|]|]; reflexivity.
Qed.

Lemma wrun_alive_parent : forall l a, calm l -> w_ph a = RAlive ->
  w_ph (wrun rw_parent a l) = RAlive /\ w_n (wrun rw_parent a l) = w_n a.
Proof.
  unfold wrun. induction l as [|o r IH]; intros a Hc Hp; simpl; auto.
  apply calm_cons in Hc as [Ht Hc].
  assert (Hs : w_ph (wstep rw_parent a o) = RAlive /\ w_n (wstep rw_parent a o) = w_n a).
  { destruct o as [v|v| |]; simpl in *; try discriminate; rewrite Hp; destruct (wid_eqb v rw_parent); simpl; auto. }
  destruct Hs as [Hp' Hn']. destruct (IH _ Hc Hp') as [H1 H2]. split; congruence.
Qed.

Lemma nwatch_cons w o l : nwatch w (o :: l) = (if is_watch w o then 1 else 0) + nwatch w l.
Proof. unfold nwatch; simpl. destruct (is_watch w o); reflexivity. Qed.
Lemma nunwatch_cons w o l : nunwatch w (o :: l) = (if is_unwatch w o then 1 else 0) + nunwatch w l.
Proof. unfold nunwatch; simpl. destruct (is_unwatch w o); reflexivity. Qed.
Lemma nwatch_app w l1 l2 : nwatch w (l1 ++ l2) = nwatch w l1 + nwatch w l2.
Proof. unfold nwatch. rewrite filter_app, app_length. reflexivity. Qed.

(* racing requests: every Watch is answered at once, an Unwatch still removes the table entry *)
Lemma wrun_terminating w : w <> rw_parent -> forall l a, calm l -> w_ph a = RTerminating ->
  wrun w a l = {| w_ph := RTerminating; w_on := w_on a && (nunwatch w l =? 0); w_n := nwatch w l + w_n a |}.
Proof.
  intros Hw. apply wid_eqb_neq in Hw. unfold wrun.
  induction l as [|o r IH]; intros a Hc Hp; simpl.
  - destruct a; simpl in *; subst. rewrite andb_true_r. reflexivity.
  - apply calm_cons in Hc as [Ht Hc]. rewrite nwatch_cons, nunwatch_cons.
    destruct o as [v|v| |]; simpl in *; try discriminate; rewrite Hp, ?Hw;
      destruct (wid_eqb v w); simpl; rewrite IH by (simpl; auto); simpl; f_equal; try lia;
      rewrite ?andb_false_r; reflexivity.
Qed.

Lemma wrun_terminating_parent : forall l a, calm l -> w_ph a = RTerminating ->
  w_ph (wrun rw_parent a l) = RTerminating /\ w_n (wrun rw_parent a l) = w_n a.
Proof.
  unfold wrun. induction l as [|o r IH]; intros a Hc Hp; simpl; auto.
  apply calm_cons in Hc as [Ht Hc].
  assert (Hs : w_ph (wstep rw_parent a o) = RTerminating /\ w_n (wstep rw_parent a o) = w_n a).
  { destruct o as [v|v| |]; simpl in *; try discriminate; rewrite Hp; destruct (wid_eqb v rw_parent); simpl; auto. }
  destruct Hs as [Hp' Hn']. destruct (IH _ Hc Hp') as [H1 H2]. split; congruence.
Qed.

(* the target is gone (or never existed): one notice per Watch, whoever asks; nothing else happens any more *)
Lemma wrun_gone w : forall l a, w_ph a = RGone ->
  wrun w a l = {| w_ph := RGone; w_on := w_on a; w_n := nwatch w l + w_n a |}.
Proof.
  unfold wrun. induction l as [|o r IH]; intros a Hp; simpl.
  - destruct a; simpl in *; subst; reflexivity.
  - rewrite nwatch_cons.
    destruct o as [v|v| |]; simpl in *; rewrite Hp; try destruct (wid_eqb v w); simpl;
      rewrite IH by (simpl; auto); simpl; f_equal; lia.
Qed.

Lemma wrun_app w a l1 l2 : wrun w a (l1 ++ l2) = wrun w (wrun w a l1) l2.
Proof. unfold wrun. apply fold_left_app. Qed.

Lemma wrun_cons w a o l : wrun w a (o :: l) = wrun w (wstep w a o) l.
Proof. reflexivity. Qed.

Lemma wstep_begin w a : w_ph a = RAlive -> wstep w a RTermBegin = w_set_ph a RTerminating.
Proof. intros H; simpl; rewrite H; reflexivity. Qed.

Lemma wstep_end w a : w_ph a = RTerminating ->
  wstep w a RTermEnd = w_set_ph (w_bump a (if wid_eqb w rw_parent then 1 else if w_on a then 1 else 0)) RGone.
Proof. intros H; simpl; rewrite H; reflexivity. Qed.

(* one termination, seen by a watcher that is not the parent *)
Lemma wrun_history w : w <> rw_parent -> forall pre mid post, calm pre -> calm mid ->
  w_n (wrun w (winit false) (history pre mid post)) =
  (if on_after (last_req w pre) false && (nunwatch w mid =? 0) then 1 else 0) + nwatch w mid + nwatch w post.
Proof.
  intros Hw pre mid post Hpre Hmid. unfold history.
  rewrite wrun_app, (wrun_alive w Hw pre (winit false) Hpre eq_refl).
  rewrite wrun_cons, wstep_begin by reflexivity.
  rewrite wrun_app, (wrun_terminating w Hw mid) by (assumption || reflexivity).
  rewrite wrun_cons, wstep_end by reflexivity.
  rewrite wrun_gone by reflexivity.
  apply wid_eqb_neq in Hw. rewrite Hw. simpl. lia.
Qed.

(* ------------------------------------------------------------------------------------------------ the theorems *)

Section Keyed.
Variable key : wid -> wid.
Hypothesis Hinj : injective key.

(* A watcher whose last request before the termination began was a Watch, and who did not unwatch while the target was
   terminating, handles exactly ONE notice for that, plus one per Watch that raced with the termination, plus one per
   Watch issued after it. *)
Theorem rw_watching_notified_exactly_once : forall w pre mid post,
  w <> rw_parent -> calm pre -> calm mid ->
  last_req w pre = Some ReqWatch -> nunwatch w mid = 0 ->
  notices w (rrun key (rinit false) (history pre mid post)) = 1 + nwatch w mid + nwatch w post.
Proof.
  intros w pre mid post Hw Hpre Hmid Hlast Hun.
  rewrite (notices_wrun key Hinj), (wrun_history w Hw pre mid post Hpre Hmid), Hlast, Hun. reflexivity.
Qed.

(* A watcher who never asked, or whose last request before the termination was an Unwatch, or who unwatched while the
   target was terminating, handles NO notice for the termination — only the answers to its racing and later Watches. *)
Theorem rw_not_watching_not_notified : forall w pre mid post,
  w <> rw_parent -> calm pre -> calm mid ->
  last_req w pre <> Some ReqWatch \/ nunwatch w mid <> 0 ->
  notices w (rrun key (rinit false) (history pre mid post)) = nwatch w mid + nwatch w post.
Proof.
  intros w pre mid post Hw Hpre Hmid Hnot.
  rewrite (notices_wrun key Hinj), (wrun_history w Hw pre mid post Hpre Hmid).
  assert (E : on_after (last_req w pre) false && (nunwatch w mid =? 0) = false).
  { destruct Hnot as [H|H].
    - destruct (last_req w pre) as [[|]|]; simpl; auto. congruence.
    - apply Nat.eqb_neq in H. rewrite H. apply andb_false_r. }
  rewrite E. reflexivity.
Qed.

(* The parent handles exactly one notice for the termination whatever it and anybody else requested before or during
   it (its own Watch requests are ignored by the living and by the terminating target), plus one per Watch it issues
   after the target is gone (answered by the dead-letter process like anybody's). *)
Theorem rw_parent_notified_exactly_once : forall pre mid post,
  calm pre -> calm mid ->
  notices rw_parent (rrun key (rinit false) (history pre mid post)) = 1 + nwatch rw_parent post.
Proof.
  intros pre mid post Hpre Hmid.
  rewrite (notices_wrun key Hinj). unfold history.
  rewrite wrun_app. destruct (wrun_alive_parent pre (winit false) Hpre eq_refl) as [Hp Hn].
  set (a1 := wrun rw_parent (winit false) pre) in *.
  rewrite wrun_cons, wstep_begin by exact Hp. rewrite wrun_app.
  destruct (wrun_terminating_parent mid (w_set_ph a1 RTerminating) Hmid eq_refl) as [Hp2 Hn2].
  set (a2 := wrun rw_parent (w_set_ph a1 RTerminating) mid) in *.
  rewrite wrun_cons, wstep_end by exact Hp2.
  rewrite wrun_gone by reflexivity. simpl. rewrite Hn2. simpl. rewrite Hn. simpl. lia.
Qed.

(* Nothing is handled before the termination begins. *)
Theorem rw_silent_while_alive : forall w pre,
  calm pre -> notices w (rrun key (rinit false) pre) = 0.
Proof.
  intros w pre Hpre. rewrite (notices_wrun key Hinj).
  destruct (wid_eqb w rw_parent) eqn:E.
  - apply wid_eqb_eq in E; subst w. destruct (wrun_alive_parent pre (winit false) Hpre eq_refl) as [_ Hn]. exact Hn.
  - apply wid_eqb_neq in E. rewrite (wrun_alive w E pre (winit false) Hpre eq_refl). reflexivity.
Qed.

(* Watching an address under which nobody was ever registered: every Watch is answered exactly once, nothing else. *)
Theorem rw_absent_answered_once_per_watch : forall w ops,
  notices w (rrun key (rinit true) ops) = nwatch w ops.
Proof.
  intros w ops. rewrite (notices_wrun key Hinj). rewrite wrun_gone by reflexivity. simpl. lia.
Qed.

(* Frame: the number of notices w handles depends only on w's own requests and the termination steps. *)
Lemma wrun_proj w : forall l a, wrun w a (proj w l) = wrun w a l.
Proof.
  unfold wrun. induction l as [|o r IH]; intros a; simpl; auto.
  destruct (concerns w o) eqn:E; simpl.
  - apply IH.
  - rewrite IH. f_equal. destruct o as [v|v| |]; simpl in *; try discriminate; rewrite E; reflexivity.
Qed.

Theorem rw_frame : forall w absent ops ops',
  proj w ops = proj w ops' ->
  notices w (rrun key (rinit absent) ops) = notices w (rrun key (rinit absent) ops').
Proof.
  intros w absent ops ops' H. rewrite !(notices_wrun key Hinj).
  rewrite <- (wrun_proj w ops), <- (wrun_proj w ops'), H. reflexivity.
Qed.

Lemma proj_app w l1 l2 : proj w (l1 ++ l2) = proj w l1 ++ proj w l2.
Proof. apply filter_app. Qed.

(* in particular: a request of ANOTHER watcher v — for instance the watcher with the same name on the other node —
   anywhere in the history never changes what w handles *)
Corollary rw_frame_other_watcher : forall w v absent a b o,
  v <> w -> o = RWatch v \/ o = RUnwatch v ->
  notices w (rrun key (rinit absent) (a ++ o :: b)) = notices w (rrun key (rinit absent) (a ++ b)).
Proof.
  intros w v absent a b o Hv Ho. apply rw_frame. rewrite !proj_app. f_equal. simpl.
  apply wid_eqb_neq in Hv. destruct Ho; subst o; simpl; rewrite Hv; reflexivity.
Qed.

End Keyed.

(* ------------------------------------------------------------------------------------------------ the code's key *)

(* the shipped key (full URL) is injective: the theorems hold of the model the correspondence runs *)
Definition rw_model_notices (w : wid) (absent : bool) (ops : list rop) : nat :=
  notices w (rrun key_full (rinit absent) ops).

(* the simple shape of the property's sentence: the termination is one event (nothing races with it) *)
Definition atomic_history (pre post : list rop) : list rop := history pre [] post.

Theorem rw_atomic_watching : forall w pre post,
  w <> rw_parent -> calm pre -> last_req w pre = Some ReqWatch ->
  rw_model_notices w false (atomic_history pre post) = 1 + nwatch w post.
Proof.
  intros w pre post Hw Hpre Hl. unfold rw_model_notices, atomic_history.
  rewrite (rw_watching_notified_exactly_once key_full key_full_injective w pre [] post); auto. reflexivity.
Qed.

Theorem rw_atomic_not_watching : forall w pre post,
  w <> rw_parent -> calm pre -> last_req w pre <> Some ReqWatch ->
  rw_model_notices w false (atomic_history pre post) = nwatch w post.
Proof.
  intros w pre post Hw Hpre Hl. unfold rw_model_notices, atomic_history.
  rewrite (rw_not_watching_not_notified key_full key_full_injective w pre [] post); auto. reflexivity.
Qed.

(* ------------------------------------------------------------------------------------------------ examples *)

(* the hypotheses are met by a history with same-name watchers on both nodes, a watching parent, an unwatch, racing
   and late requests: (1,1) watches, its namesake (0,1) watches and unwatches, (1,1) asks again during and after the
   termination; (1,0) carries the parent's name on the other node *)
Definition ex_pre : list rop := [RWatch (0, 1); RWatch (1, 1); RWatch (0, 0); RWatch (1, 0); RUnwatch (0, 1); RWatch (0, 2); RWatch (0, 2)].
Definition ex_mid : list rop := [RWatch (1, 1); RUnwatch (1, 0); RWatch (0, 0)].
Definition ex_post : list rop := [RWatch (1, 1); RWatch (0, 1); RUnwatch (0, 2); RWatch (0, 0)].

Example rw_example_hypotheses :
  calm ex_pre /\ calm ex_mid /\
  last_req (1, 1) ex_pre = Some ReqWatch /\ nunwatch (1, 1) ex_mid = 0 /\
  last_req (0, 1) ex_pre = Some ReqUnwatch /\ last_req (1, 0) ex_pre = Some ReqWatch /\ nunwatch (1, 0) ex_mid = 1 /\
  last_req (0, 2) ex_pre = Some ReqWatch /\ last_req (1, 2) ex_pre = None.
Proof. vm_compute. repeat split; reflexivity. Qed.

Example rw_example_counts :
  rw_view (rrun key_full (rinit false) (history ex_pre ex_mid ex_post)) = [2; 1; 1; 0; 0; 3; 0; 0].
Proof. vm_compute. reflexivity. Qed.

(* The seeded change "watchers keyed by the logical address" is NOT an instance: key_name is not injective, and the
   statement fails of it — the later Watch of the namesake on the other node overwrites the entry, an Unwatch of one
   removes the other. *)
Example rw_key_name_not_injective : ~ injective key_name.
Proof. intros H. specialize (H (0, 1) (1, 1) eq_refl). discriminate. Qed.

Example rw_keyed_by_name_overwrite_refuted :
  let pre := [RWatch (0, 1); RWatch (1, 1)] in
  calm pre /\ last_req (0, 1) pre = Some ReqWatch /\
  notices (0, 1) (rrun key_name (rinit false) (history pre [] [])) = 0 /\
  notices (0, 1) (rrun key_full (rinit false) (history pre [] [])) = 1.
Proof. vm_compute. repeat split; reflexivity. Qed.

Example rw_keyed_by_name_unwatch_refuted :
  let pre := [RWatch (0, 1); RWatch (1, 1); RUnwatch (1, 1)] in
  calm pre /\ last_req (0, 1) pre = Some ReqWatch /\
  notices (0, 1) (rrun key_name (rinit false) (history pre [] [])) = 0 /\
  notices (0, 1) (rrun key_full (rinit false) (history pre [] [])) = 1.
Proof. vm_compute. repeat split; reflexivity. Qed.
