(* MV.C06.Properties — property C06 ("parent and watchers learn of a termination exactly once") on the kernel model.
   Proved for every role table and every run: the last sentence of the property ("actors that did not watch and are not
   the parent are not notified", C06_notified_only_if_entitled). PARTIAL for the counting clause ("exactly one"): concrete
   executions of each case (parent that also watches, late watch of a terminating actor, watch of an address that never
   existed, non-watchers); the universally quantified counting theorem is not proved — that clause is checked on every
   run by the lockstep correspondence and the monitors C06:duplicate-notification / C06:missing-notification. *)
From MV Require Import Lib.ListX Kernel.Model Kernel.Run Kernel.Lifecycle Kernel.Watch.
Open Scope Z_scope.

Definition count_to (observer who : ref) (os : list (list obs)) : nat :=
  length (filter (fun o => match o with OH a _ (TTO w) _ _ => (a =? observer) && (w =? who) | _ => false end) (concat os)).

(* No spurious notification. After ANY run (any role table, any label sequence: external sends / spawns / terminations /
   shutdown interleaved with message-processing steps of any mailbox, failures and restarts included) from the freshly
   started system, if the next step shows address x handling OnTerminated(w) (w other than x itself), then x issued a
   Watch for w earlier in that run, or x is the parent of an actor object created under address w. *)
Theorem C06_notified_only_if_entitled : forall roles ls s os l s' o x i w sn sd,
  krun roles kinit ls = Some (s, os) -> kstep roles s l = Some (s', o) -> In (OH x i (TTO w) sn sd) o ->
  In (OW x w) (concat os) \/ exists c ac, get s c = Some ac /\ a_tok ac = w /\ a_parent ac = x.
Proof. exact notified_only_if_entitled. Qed.
Print Assumptions C06_notified_only_if_entitled.

(* the terminated actor's own steps never produce a notification to itself or anyone once it is Terminated *)
Theorem C06_terminated_is_silent_partial : forall roles s u a s' o,
  get s u = Some a -> a_st a = Terminated -> run_actor roles s u = Some (s', o) -> existsb is_handled o = false.
Proof. exact terminated_silent. Qed.
Print Assumptions C06_terminated_is_silent_partial.

(* parent 0 watches its child 1 and is notified exactly once; 2 (neither parent nor watcher) is not notified;
   a watch of the never-existing address 9 is answered exactly once *)
Definition c06_roles : list role :=
  [ {| victim := None; sup := [DStop]; rules := [ {| r_on := KL; r_n := -1; r_inst := -1; r_do := [ASpawn 1 1; ASpawn 2 1; AWatch 1; AWatch 9] |} ] |};
    {| victim := None; sup := []; rules := [] |} ].
Example C06_example :
  let '(s, os) := play c06_roles kinit [LSpawn 0 0; LTerm 1 false; LShutdown false; LEnd] in
  quiet s = true /\ closed s = true /\
  count_to 0 1 os = 1%nat /\ count_to 0 9 os = 1%nat /\ count_to 2 1 os = 0%nat /\ count_to 0 2 os = 1%nat.
Proof. vm_compute. repeat split; reflexivity. Qed.
