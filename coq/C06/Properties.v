(* MV.C06.Properties — property C06 ("parent and watchers learn of a termination exactly once") on the kernel model.
   Proved for every role table and every run: the last sentence of the property ("actors that did not watch and are not
   the parent are not notified", C06_notified_only_if_entitled), and the upper half of the counting clause ("exactly one":
   never two — C06_no_duplicate_notice, a flow inequality over every kernel operation, Kernel/Notice.v). PARTIAL for the
   lower half ("at least one"): concrete executions of each case (parent that also watches, late watch of a terminating
   actor, watch of an address that never existed, non-watchers); that a notice is never lost is checked on every run by
   the lockstep correspondence and the monitor C06:missing-notification. *)
From MV Require Import Lib.ListX Kernel.Model Kernel.Run Kernel.Lifecycle Kernel.Watch Kernel.Notice.
Open Scope Z_scope.

Definition count_to (observer who : ref) (os : list (list obs)) : nat :=
  length (filter (fun o => match o with OH a _ (TTO w) _ _ => (a =? observer) && (w =? who) | _ => false end) (concat os)).

(* No spurious notification. After ANY run (any role table, any label sequence: external sends / spawns / terminations /
   shutdown interleaved with message-processing steps of any mailbox, failures and restarts included) from the freshly
   started system, if the next step shows address x handling OnTerminated(w) (w other than x itself), then x issued a
   Watch for w earlier in that run, or x is the parent of an actor object created under address w. *)
Theorem C06_notified_only_if_entitled : forall roles ls s os l s' o x i w sn sd,
  krun roles kinit ls = Some (s, os) -> kstep roles s l = Some (s', o) -> In (OH x i (TTO w) sn sd) o ->
  In (OW x w) (concat os) \/ exists c ac, get s c = Some ac /\ a_tok ac = w /\ a_parent ac = x.
Proof. exact notified_only_if_entitled. Qed.
Print Assumptions C06_notified_only_if_entitled.

Definition c06_roles_b : list role :=
  [ {| victim := None; sup := [DStop]; rules := [ {| r_on := KL; r_n := -1; r_inst := -1; r_do := [ASpawn 1 1; AWatch 1; AWatch 9; AWatch 9] |} ] |};
    {| victim := None; sup := []; rules := [] |} ].

(* No duplicate. In every run from the freshly started system, for every pair of addresses x and (user address) w: the
   number of times x handles OnTerminated(w) never exceeds the number of Watch requests x issued for w plus the number
   of actor objects x created at address w. Every watch request and every parenthood is answered at most once: a parent
   that also watches its child, the same watcher registered twice, a watch racing with the termination, a watch of an
   address that no longer or never existed, unwatch and re-watch, restarts, re-creation under the same name — never a
   second notice for the same entitlement.
   n_handled x w = number of OH x _ (TTO w) _ _ in the trace, n_watch = number of OW x w, n_spawn = number of OSp x w. *)
Theorem C06_no_duplicate_notice : forall roles ls s' os x w,
  0 <= w -> krun roles kinit ls = Some (s', os) ->
  (n_handled x w (concat os) <= n_watch x w (concat os) + n_spawn x w (concat os))%nat.
Proof. exact no_duplicate_notice. Qed.
Print Assumptions C06_no_duplicate_notice.

(* the bound is attained: the parent 0 of 1 that also watches 1 (one spawn, one watch request while 1 is alive) handles
   exactly one notice; two watch requests for the dead address 9 are answered once each *)
Example C06_no_duplicate_tight :
  let '(_, os) := play c06_roles_b kinit [LSpawn 0 0; LTerm 1 false; LShutdown false; LEnd] in
  n_handled 0 1 (concat os) = 1%nat /\ n_watch 0 1 (concat os) = 1%nat /\ n_spawn 0 1 (concat os) = 1%nat /\
  n_handled 0 9 (concat os) = 2%nat /\ n_watch 0 9 (concat os) = 2%nat /\ n_spawn 0 9 (concat os) = 0%nat.
Proof. vm_compute. repeat split; reflexivity. Qed.

(* the terminated actor's own steps never produce a notification to itself or anyone once it is Terminated *)
Theorem C06_terminated_is_silent_partial : forall roles s u a s' o,
  get s u = Some a -> a_st a = Terminated -> run_actor roles s u = Some (s', o) -> existsb is_handled o = false.
Proof. exact terminated_silent. Qed.
Print Assumptions C06_terminated_is_silent_partial.

(* parent 0 watches its child 1 and is notified exactly once; 2 (neither parent nor watcher) is not notified;
   a watch of the never-existing address 9 is answered exactly once *)
Definition c06_roles : list role :=
  [ {| victim := None; sup := [DStop]; rules := [ {| r_on := KL; r_n := -1; r_inst := -1; r_do := [ASpawn 1 1; ASpawn 2 1; AWatch 1; AWatch 9] |} ] |};
    {| victim := None; sup := []; rules := [] |} ].
Example C06_example :
  let '(s, os) := play c06_roles kinit [LSpawn 0 0; LTerm 1 false; LShutdown false; LEnd] in
  quiet s = true /\ closed s = true /\
  count_to 0 1 os = 1%nat /\ count_to 0 9 os = 1%nat /\ count_to 2 1 os = 0%nat /\ count_to 0 2 os = 1%nat.
Proof. vm_compute. repeat split; reflexivity. Qed.
