(* MV.C06.Properties — property C06 ("parent and watchers learn of a termination exactly once") on the kernel model.
   PARTIAL: concrete executions of each clause (parent that also watches, late watch of a terminating actor, watch of an
   address that never existed, non-watchers); the universally quantified counting theorem is not proved yet — the clause
   is checked on every run by the lockstep correspondence and the monitors C06:spurious-notification / C06:duplicate-notification. *)
From MV Require Import Lib.ListX Kernel.Model Kernel.Run Kernel.Lifecycle.
Open Scope Z_scope.

Definition count_to (observer who : ref) (os : list (list obs)) : nat :=
  length (filter (fun o => match o with OH a _ (TTO w) _ _ => (a =? observer) && (w =? who) | _ => false end) (concat os)).

(* the terminated actor's own steps never produce a notification to itself or anyone once it is Terminated *)
Theorem C06_terminated_is_silent_partial : forall roles s u a s' o,
  get s u = Some a -> a_st a = Terminated -> run_actor roles s u = Some (s', o) -> existsb is_handled o = false.
Proof. exact terminated_silent. Qed.
Print Assumptions C06_terminated_is_silent_partial.

(* parent 0 watches its child 1 and is notified exactly once; 2 (neither parent nor watcher) is not notified;
   a watch of the never-existing address 9 is answered exactly once *)
Definition c06_roles : list role :=
  [ {| victim := None; sup := [DStop]; rules := [ {| r_on := KL; r_n := -1; r_inst := -1; r_do := [ASpawn 1 1; ASpawn 2 1; AWatch 1; AWatch 9] |} ] |};
    {| victim := None; sup := []; rules := [] |} ].
Example C06_example :
  let '(s, os) := play c06_roles kinit [LSpawn 0 0; LTerm 1 false; LShutdown false; LEnd] in
  quiet s = true /\ closed s = true /\
  count_to 0 1 os = 1%nat /\ count_to 0 9 os = 1%nat /\ count_to 2 1 os = 0%nat /\ count_to 0 2 os = 1%nat.
Proof. vm_compute. repeat split; reflexivity. Qed.
