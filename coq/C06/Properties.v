(* MV.C06.Properties — property C06 ("parent and watchers learn of a termination exactly once") on the kernel model.
   Proved for every role table and every run: the last sentence of the property ("actors that did not watch and are not
   the parent are not notified", C06_notified_only_if_entitled), and the upper half of the counting clause ("exactly one":
   never two — C06_no_duplicate_notice, a flow inequality over every kernel operation, Kernel/Notice.v). PARTIAL for the
   lower half ("at least one"): C06_termination_notifies_every_watcher (Kernel/Fanout.v) proves that the step in which an
   actor becomes terminated puts one more notice into the mailbox of every registered watcher and of the parent, from
   any state; that the queued notice is then handled (the watcher's mailbox is drained in order — C02 — and a notice is
   dropped only by a watcher that has itself terminated) is not a separate theorem: concrete executions of each case
   (parent that also watches, late watch of a terminating actor, watch of an address that never existed, non-watchers)
   and, on every run, the lockstep correspondence and the monitor C06:missing-notification. *)
From MV Require Import Lib.ListX Kernel.Model Kernel.Run Kernel.Lifecycle Kernel.Registry Kernel.Watch Kernel.Notice Kernel.Fanout Kernel.WatchTable.
Open Scope Z_scope.

Definition count_to (observer who : ref) (os : list (list obs)) : nat :=
  length (filter (fun o => match o with OH a _ (TTO w) _ _ => (a =? observer) && (w =? who) | _ => false end) (concat os)).

(* No spurious notification. After ANY run (any role table, any label sequence: external sends / spawns / terminations /
   shutdown interleaved with message-processing steps of any mailbox, failures and restarts included) from the freshly
   started system, if the next step shows address x handling OnTerminated(w) (w other than x itself), then x issued a
   Watch for w earlier in that run, or x is the parent of an actor object created under address w. *)
Theorem C06_notified_only_if_entitled : forall roles ls s os l s' o x i w sn sd,
  krun roles kinit ls = Some (s, os) -> kstep roles s l = Some (s', o) -> In (OH x i (TTO w) sn sd) o ->
  In (OW x w) (concat os) \/ exists c ac, get s c = Some ac /\ a_tok ac = w /\ a_parent ac = x.
Proof. exact notified_only_if_entitled. Qed.
Print Assumptions C06_notified_only_if_entitled.

Definition c06_roles_b : list role :=
  [ {| victim := None; sup := [DStop]; rules := [ {| r_on := KL; r_n := -1; r_inst := -1; r_do := [ASpawn 1 1; AWatch 1; AWatch 9; AWatch 9] |} ] |};
    {| victim := None; sup := []; rules := [] |} ].

(* No duplicate. In every run from the freshly started system, for every pair of addresses x and (user address) w: the
   number of times x handles OnTerminated(w) never exceeds the number of Watch requests x issued for w plus the number
   of actor objects x created at address w. Every watch request and every parenthood is answered at most once: a parent
   that also watches its child, the same watcher registered twice, a watch racing with the termination, a watch of an
   address that no longer or never existed, unwatch and re-watch, restarts, re-creation under the same name — never a
   second notice for the same entitlement.
   n_handled x w = number of OH x _ (TTO w) _ _ in the trace, n_watch = number of OW x w, n_spawn = number of OSp x w. *)
Theorem C06_no_duplicate_notice : forall roles ls s' os x w,
  0 <= w -> krun roles kinit ls = Some (s', os) ->
  (n_handled x w (concat os) <= n_watch x w (concat os) + n_spawn x w (concat os))%nat.
Proof. exact no_duplicate_notice. Qed.
Print Assumptions C06_no_duplicate_notice.

(* the bound is attained: the parent 0 of 1 that also watches 1 (one spawn, one watch request while 1 is alive) handles
   exactly one notice; two watch requests for the dead address 9 are answered once each *)
Example C06_no_duplicate_tight :
  let '(_, os) := play c06_roles_b kinit [LSpawn 0 0; LTerm 1 false; LShutdown false; LEnd] in
  n_handled 0 1 (concat os) = 1%nat /\ n_watch 0 1 (concat os) = 1%nat /\ n_spawn 0 1 (concat os) = 1%nat /\
  n_handled 0 9 (concat os) = 2%nat /\ n_watch 0 9 (concat os) = 2%nat /\ n_spawn 0 9 (concat os) = 0%nat.
Proof. vm_compute. repeat split; reflexivity. Qed.

(* Fan-out. From ANY state with a well-formed registry (every reachable state has one: RI_reachable), for every role table and
   every step: if the step makes actor object u terminated (it was not before), then for every address x in the watcher
   table u terminated with, and for u's parent, the object registered under x at the beginning of the step has, after the
   step, at least one more notice "u's address terminated" in its mailbox (in flight or in the system queue) than before:
   the notice is sent in the very step of the termination, to everyone entitled, and nothing else in that step takes a
   system message out of another object's mailbox. (x other than u's own address: an actor watching itself is
   unregistered before its notices are sent.) *)
Theorem C06_termination_notifies_every_watcher : forall roles s l s' o u a a',
  RI s -> kstep roles s l = Some (s', o) -> get s u = Some a -> a_st a <> Terminated -> get s' u = Some a' -> a_st a' = Terminated ->
  forall x v b, In x (a_watchers a') \/ x = a_parent a' -> x <> a_tok a' -> x <> rNone ->
    lookup x (registry s) = Some v -> get s v = Some b ->
    exists b', get s' v = Some b' /\ (nn (a_tok a') b + 1 <= nn (a_tok a') b')%nat.
Proof. exact fanout_step. Qed.
Print Assumptions C06_termination_notifies_every_watcher.

(* the terminated actor's own steps never produce a notification to itself or anyone once it is Terminated *)
Theorem C06_terminated_is_silent_partial : forall roles s u a s' o,
  get s u = Some a -> a_st a = Terminated -> run_actor roles s u = Some (s', o) -> existsb is_handled o = false.
Proof. exact terminated_silent. Qed.
Print Assumptions C06_terminated_is_silent_partial.

(* parent 0 watches its child 1 and is notified exactly once; 2 (neither parent nor watcher) is not notified;
   a watch of the never-existing address 9 is answered exactly once *)
Definition c06_roles : list role :=
  [ {| victim := None; sup := [DStop]; rules := [ {| r_on := KL; r_n := -1; r_inst := -1; r_do := [ASpawn 1 1; ASpawn 2 1; AWatch 1; AWatch 9] |} ] |};
    {| victim := None; sup := []; rules := [] |} ].
(* "every actor that has watched it and NOT UNWATCHED it": the watcher table — the set of addresses the terminating step
   notifies (C06_termination_notifies_every_watcher) — is a function of the watch / unwatch requests the object has taken out of
   its mailbox, and of nothing else. For every role table, from ANY state, for EVERY label and EVERY object: after the step its
   table is [next_table] of the table before — unchanged unless the step is that object's own run of a Watch request (from
   somebody other than its parent, while it is not yet terminating: the sender is inserted; otherwise the request is answered
   at once or ignored) or of an Unwatch request (while it is not terminated: the sender is removed). Nothing else — a send, a
   spawn, a failure, a restart of the object (the table survives it), anybody else's termination, a decision — touches it, and
   a request changes the table of its receiver only. Requests travel in the target's system queue (FIFO), so an Unwatch issued
   after a Watch by the same watcher is processed after it. *)
Theorem C06_watcher_table_follows_requests : forall roles s l s' o v b,
  kstep roles s l = Some (s', o) -> get s v = Some b ->
  exists b', get s' v = Some b' /\ a_watchers b' = next_table l v b.
Proof. exact watch_table_step. Qed.
Print Assumptions C06_watcher_table_follows_requests.

(* non-vacuity: actor 2 watches 1, then unwatches it; the table of 1 (object 3) is [] -> [2] -> [] exactly at the two steps in
   which object 3 runs the requests, and the later termination of 1 notifies its parent 0 only *)
Definition c06_uw_roles : list role :=
  [ {| victim := None; sup := [DStop]; rules := [ {| r_on := KL; r_n := -1; r_inst := -1; r_do := [ASpawn 1 1; ASpawn 2 2] |} ] |};
    {| victim := None; sup := []; rules := [] |};
    {| victim := None; sup := []; rules := [ {| r_on := KP; r_n := 0; r_inst := -1; r_do := [AWatch 1] |}; {| r_on := KP; r_n := 1; r_inst := -1; r_do := [AUnwatch 1] |} ] |} ].
Example C06_watch_then_unwatch_example :
  let tbl := fun ls => match krun c06_uw_roles kinit ls with Some (s, _) => option_map a_watchers (get s 3%nat) | None => None end in
  let pre := [LSpawn 0 0; LRun 2; LRun 3; LRun 4; LTell 2 0; LRun 4] in
  tbl pre = Some [] /\ tbl (pre ++ [LRun 3]) = Some [2] /\
  tbl (pre ++ [LRun 3; LTell 2 1; LRun 4]) = Some [2] /\ tbl (pre ++ [LRun 3; LTell 2 1; LRun 4; LRun 3]) = Some [] /\
  match krun c06_uw_roles kinit (pre ++ [LRun 3; LTell 2 1; LRun 4; LRun 3; LTerm 1 false; LRun 3; LRun 2]) with
  | Some (_, os) => count_to 0 1 os = 1%nat /\ count_to 2 1 os = 0%nat
  | None => False
  end.
Proof. vm_compute. repeat split; reflexivity. Qed.

(* the premises are met: in the run of C06_example below, the step in which actor 1 (uid 3, watched by its parent 0 — whose
   watch is ignored, the parent is notified anyway) terminates puts the notice into the mailbox of 0 (uid 2) *)
Example C06_fanout_example :
  exists ls s os l s' o a a' b b',
    krun c06_roles kinit ls = Some (s, os) /\ kstep c06_roles s l = Some (s', o) /\
    get s 3%nat = Some a /\ a_st a <> Terminated /\ get s' 3%nat = Some a' /\ a_st a' = Terminated /\ a_parent a' = 0 /\
    lookup 0 (registry s) = Some 2%nat /\ get s 2%nat = Some b /\ get s' 2%nat = Some b' /\ nn 1 b = 0%nat /\ nn 1 b' = 1%nat.
Proof.
  exists [LSpawn 0 0; LRun 2; LRun 3; LRun 4; LTerm 1 false; LRun 3]. eexists. eexists. exists (LRun 3).
  eexists. eexists. eexists. eexists. eexists. eexists.
  split; [vm_compute; reflexivity|]. split; [vm_compute; reflexivity|]. split; [vm_compute; reflexivity|].
  split; [vm_compute; discriminate|]. split; [vm_compute; reflexivity|]. vm_compute. repeat split; reflexivity.
Qed.

Example C06_example :
  let '(s, os) := play c06_roles kinit [LSpawn 0 0; LTerm 1 false; LShutdown false; LEnd] in
  quiet s = true /\ closed s = true /\
  count_to 0 1 os = 1%nat /\ count_to 0 9 os = 1%nat /\ count_to 2 1 os = 0%nat /\ count_to 0 2 os = 1%nat.
Proof. vm_compute. repeat split; reflexivity. Qed.

(* ======================================================================================================================
   Remote watch (second sub-check of C06): the counting clause for watchers on TWO nodes.
   Model MV.C06.RemoteWatchModel: the watch bookkeeping of ONE target actor (onWatch / onUnWatch / tryTerminated, the
   dead-letter process) with watchers identified by (node, name) — (0, n) and (1, n) are different actors with the same
   logical address —, the parent (0, 0), operations RWatch w / RUnwatch w / RTermBegin (the target starts terminating and
   waits for its child) / RTermEnd (tryTerminated completes), each run to quiescence on both nodes; observable
   [notices w s] = number of OnTerminated(target) w has handled.  The table key is a parameter: the code's key (the
   sender's full URL) is [key_full]; the theorems hold for every INJECTIVE key.  [history pre mid post] =
   pre ++ RTermBegin :: mid ++ RTermEnd :: post, [calm l] = no termination step in l, [last_req w l] = w's last request
   in l, [nwatch w l] / [nunwatch w l] = number of Watch / Unwatch requests of w in l.  Tied on every run to two real
   linked actor systems (harness/cmd/c06remote).  Every statement is for EVERY operation sequence of its shape. *)
From MV Require Import C06.RemoteWatchModel C06.RemoteWatchRun C06.RemoteWatchProofs.

(* A watcher (not the parent) whose last request before the termination began was a Watch and who did not unwatch while
   the target was terminating handles exactly one notice for it, plus one per Watch that raced with the termination
   (answered at once by the terminating target), plus one per Watch issued after it (answered by the dead-letter
   process) — whatever anybody else, in particular its namesake on the other node, requested. *)
Theorem C06_remote_watching_notified_exactly_once : forall key, injective key -> forall w pre mid post,
  w <> rw_parent -> calm pre -> calm mid ->
  last_req w pre = Some ReqWatch -> nunwatch w mid = 0%nat ->
  notices w (rrun key (rinit false) (history pre mid post)) = (1 + nwatch w mid + nwatch w post)%nat.
Proof. exact rw_watching_notified_exactly_once. Qed.
Print Assumptions C06_remote_watching_notified_exactly_once.

(* A watcher that never asked, or whose last request before the termination was an Unwatch, or that unwatched while the
   target was terminating, handles no notice for the termination: only the answers to its racing and later Watches. *)
Theorem C06_remote_not_watching_not_notified : forall key, injective key -> forall w pre mid post,
  w <> rw_parent -> calm pre -> calm mid ->
  last_req w pre <> Some ReqWatch \/ nunwatch w mid <> 0%nat ->
  notices w (rrun key (rinit false) (history pre mid post)) = (nwatch w mid + nwatch w post)%nat.
Proof. exact rw_not_watching_not_notified. Qed.
Print Assumptions C06_remote_not_watching_not_notified.

(* The parent handles exactly one notice for the termination whatever it or anybody requested before or during it (a
   watching parent is not notified twice), plus one per Watch it issues once the target is gone. *)
Theorem C06_remote_parent_notified_exactly_once : forall key, injective key -> forall pre mid post,
  calm pre -> calm mid ->
  notices rw_parent (rrun key (rinit false) (history pre mid post)) = (1 + nwatch rw_parent post)%nat.
Proof. exact rw_parent_notified_exactly_once. Qed.
Print Assumptions C06_remote_parent_notified_exactly_once.

(* The property's sentence for the code's own key, the termination being one event: last request a Watch -> exactly one
   notice (+ one per later Watch); last request an Unwatch, or none -> none (+ one per later Watch). *)
Theorem C06_remote_atomic_watching : forall w pre post,
  w <> rw_parent -> calm pre -> last_req w pre = Some ReqWatch ->
  notices w (rrun key_full (rinit false) (pre ++ RTermBegin :: RTermEnd :: post)) = (1 + nwatch w post)%nat.
Proof. exact rw_atomic_watching. Qed.
Print Assumptions C06_remote_atomic_watching.

Theorem C06_remote_atomic_not_watching : forall w pre post,
  w <> rw_parent -> calm pre -> last_req w pre <> Some ReqWatch ->
  notices w (rrun key_full (rinit false) (pre ++ RTermBegin :: RTermEnd :: post)) = nwatch w post.
Proof. exact rw_atomic_not_watching. Qed.
Print Assumptions C06_remote_atomic_not_watching.

(* Nobody handles a notice before the termination begins. *)
Theorem C06_remote_silent_while_alive : forall key, injective key -> forall w pre,
  calm pre -> notices w (rrun key (rinit false) pre) = 0%nat.
Proof. exact rw_silent_while_alive. Qed.
Print Assumptions C06_remote_silent_while_alive.

(* Watching an address under which nobody was ever registered: every Watch request is answered exactly once. *)
Theorem C06_remote_absent_answered_once_per_watch : forall key, injective key -> forall w ops,
  notices w (rrun key (rinit true) ops) = nwatch w ops.
Proof. exact rw_absent_answered_once_per_watch. Qed.
Print Assumptions C06_remote_absent_answered_once_per_watch.

(* Frame: what w handles depends only on w's own requests and the termination steps ([proj w] keeps exactly those) ... *)
Theorem C06_remote_frame : forall key, injective key -> forall w absent ops ops',
  proj w ops = proj w ops' ->
  notices w (rrun key (rinit absent) ops) = notices w (rrun key (rinit absent) ops').
Proof. exact rw_frame. Qed.
Print Assumptions C06_remote_frame.

(* ... in particular a request of another watcher v (for instance (1, n) for w = (0, n): same name, other node), inserted
   anywhere, never changes it. *)
Theorem C06_remote_frame_other_watcher : forall key, injective key -> forall w v absent a b o,
  v <> w -> o = RWatch v \/ o = RUnwatch v ->
  notices w (rrun key (rinit absent) (a ++ o :: b)) = notices w (rrun key (rinit absent) (a ++ b)).
Proof. exact rw_frame_other_watcher. Qed.
Print Assumptions C06_remote_frame_other_watcher.

(* The code's key is injective, so the model the correspondence runs ([rrun key_full]) is an instance. *)
Theorem C06_remote_url_key_injective : injective key_full.
Proof. exact key_full_injective. Qed.
Print Assumptions C06_remote_url_key_injective.

(* The hypotheses are met by a concrete history with same-name watchers on both nodes, a watching parent, duplicates,
   unwatch, racing and late requests; its final counts for (0,0) (0,1) (0,2) (0,3) (1,0) (1,1) (1,2) (1,3): *)
Example C06_remote_example :
  calm ex_pre /\ calm ex_mid /\
  last_req (1, 1)%nat ex_pre = Some ReqWatch /\ nunwatch (1, 1)%nat ex_mid = 0%nat /\
  last_req (0, 1)%nat ex_pre = Some ReqUnwatch /\ last_req (1, 0)%nat ex_pre = Some ReqWatch /\ nunwatch (1, 0)%nat ex_mid = 1%nat /\
  rw_view (rrun key_full (rinit false) (history ex_pre ex_mid ex_post)) = [2; 1; 1; 0; 0; 3; 0; 0]%nat.
Proof. vm_compute. repeat split; reflexivity. Qed.

(* Keyed by the logical address alone (not injective) the statement fails: the namesake's Watch overwrites the entry. *)
Example C06_remote_keyed_by_name_refuted_example :
  let pre := [RWatch (0, 1)%nat; RWatch (1, 1)%nat] in
  calm pre /\ last_req (0, 1)%nat pre = Some ReqWatch /\
  notices (0, 1)%nat (rrun key_name (rinit false) (history pre [] [])) = 0%nat.
Proof. vm_compute. repeat split; reflexivity. Qed.
