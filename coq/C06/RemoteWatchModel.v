(* MV.C06.RemoteWatchModel — executable model of the watch bookkeeping of ONE target actor whose watchers live on
   TWO linked nodes (engine/vivid/actor_context.go onWatch / onUnWatch / tryTerminated, abyss.go DeliverySystemMessage).

   A watcher is identified by (node, name): the name stands for its logical address (/user/<name>), the node for the
   physical address of its system.  Every node names its actors alike, so (0, n) and (1, n) are DIFFERENT actors with
   the SAME logical address.  The parent of the target is the actor (0, 0); (1, 0) is an ordinary watcher on the other
   node that happens to carry the parent's logical address.

   What the code does, and the model follows:
   - onWatch, target alive: a request of the parent is ignored (the parent is notified anyway); otherwise
       watchers[key sender] = sender              (a map: a second request of the same watcher collapses)
   - onWatch, target terminating (it waits for its children): parent ignored; anybody else is answered at once with
     one Terminated, the table is not touched
   - Watch of an address nobody is registered under (the target is gone, or never existed): the dead-letter process
     answers every request at once with one Terminated — the parent's too
   - onUnWatch: delete(watchers, key sender) while the target object still reads its mailbox; the dead-letter process
     ignores it
   - tryTerminated (the last child is gone): one Terminated to every entry of the table except the parent, then one
     to the parent.
   The real key is the sender's full URL (physical + logical address): [key_full].  The model takes the key function
   as a parameter so that the theorems can say what they need of it (injectivity) and the seeded change
   "watchers keyed by the logical address" ([key_name]) is expressible — and refuted (RemoteWatchProofs.v).

   One step = one request handled to quiescence on both nodes (the harness waits for that): sequential histories.
   The termination is two steps, [RTermBegin] (the target handles the terminate request: Terminating, waits for its
   child) and [RTermEnd] (the child is gone: tryTerminated completes), so that requests RACING with the termination
   are histories of the model as well. *)
From MV Require Import Lib.ListX.
Open Scope nat_scope.

Definition wid := (nat * nat)%type.                      (* node, name *)
Definition wid_eqb (a b : wid) : bool := (fst a =? fst b) && (snd a =? snd b).
Definition rw_parent : wid := (0, 0).

Definition key_full (w : wid) : wid := w.                 (* sender.URL().String() *)
Definition key_name (w : wid) : wid := (0, snd w).        (* sender.GetLogicalAddress(): the seeded change *)

Inductive rop := RWatch (w : wid) | RUnwatch (w : wid) | RTermBegin | RTermEnd.
Inductive rphase := RAlive | RTerminating | RGone.

Record rstate := {
  r_ph : rphase;
  r_tab : list (wid * wid);       (* ctx.watchers: key -> watcher *)
  r_notes : list wid              (* every OnTerminated(target) handled so far, by whom (latest first) *)
}.

(* watchers[k] = v *)
Fixpoint tab_put (k v : wid) (t : list (wid * wid)) : list (wid * wid) :=
  match t with
  | [] => [(k, v)]
  | e :: t' => if wid_eqb (fst e) k then (k, v) :: t' else e :: tab_put k v t'
  end.

(* delete(watchers, k) *)
Definition tab_del (k : wid) (t : list (wid * wid)) : list (wid * wid) :=
  filter (fun e => negb (wid_eqb (fst e) k)) t.

Definition tab_has (k : wid) (t : list (wid * wid)) : bool := existsb (fun e => wid_eqb (fst e) k) t.

Definition with_tab (s : rstate) (t : list (wid * wid)) : rstate :=
  {| r_ph := r_ph s; r_tab := t; r_notes := r_notes s |}.
Definition with_note (s : rstate) (w : wid) : rstate :=
  {| r_ph := r_ph s; r_tab := r_tab s; r_notes := w :: r_notes s |}.
Definition with_ph (s : rstate) (p : rphase) : rstate :=
  {| r_ph := p; r_tab := r_tab s; r_notes := r_notes s |}.

(* the loop of tryTerminated over the table (the parent is skipped there and notified afterwards) *)
Definition notified_at_end (t : list (wid * wid)) : list wid :=
  rw_parent :: filter (fun v => negb (wid_eqb v rw_parent)) (map snd t).

Definition rstep (key : wid -> wid) (s : rstate) (o : rop) : rstate :=
  match o with
  | RWatch w =>
      match r_ph s with
      | RAlive => if wid_eqb w rw_parent then s else with_tab s (tab_put (key w) w (r_tab s))
      | RTerminating => if wid_eqb w rw_parent then s else with_note s w
      | RGone => with_note s w
      end
  | RUnwatch w =>
      match r_ph s with
      | RGone => s
      | _ => with_tab s (tab_del (key w) (r_tab s))
      end
  | RTermBegin =>
      match r_ph s with
      | RAlive => with_ph s RTerminating
      | _ => s
      end
  | RTermEnd =>
      match r_ph s with
      | RTerminating => {| r_ph := RGone; r_tab := r_tab s; r_notes := notified_at_end (r_tab s) ++ r_notes s |}
      | _ => s
      end
  end.

(* absent = true: nobody was ever registered under the watched address *)
Definition rinit (absent : bool) : rstate :=
  {| r_ph := if absent then RGone else RAlive; r_tab := []; r_notes := [] |}.

Definition rrun (key : wid -> wid) (s : rstate) (ops : list rop) : rstate := fold_left (rstep key) ops s.

(* the observable: how many OnTerminated(target) watcher w has handled *)
Definition count_of (w : wid) (l : list wid) : nat := length (filter (wid_eqb w) l).
Definition notices (w : wid) (s : rstate) : nat := count_of w (r_notes s).
