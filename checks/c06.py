# C06 — parent and watchers learn of a termination exactly once
# Two sub-checks: the kernel model (klock, shared with C03/C04/C05: one node, every role table and schedule) and the watch
# bookkeeping of one target with watchers on TWO linked nodes (c06remote: watchers identified by node AND name).
import kernel_common as K

TRUSTED_REMOTE = [
    "hand-written model coq/C06/RemoteWatchModel.v of the watch bookkeeping of ONE target actor (engine/vivid/actor_context.go onWatch / "
    "onUnWatch / tryTerminated: table keyed by the sender's full URL, parent skipped, a terminating target answers at once; abyss.go: the "
    "dead-letter process answers every Watch of an unregistered address) with watchers identified by (node, name), tied on every run by "
    "differential execution (harness/cmd/c06remote): scripts run on two REAL vivid actor systems linked through sharing on 127.0.0.1 "
    "(ephemeral ports, gRPC), eight recording actors with the same four names on both nodes, a fresh target per script spawned by /user/p of "
    "node 0; after EVERY operation quiescence of both nodes (tracking dispatcher through the verif hook VerifSetDefaultDispatcher) + a fence "
    "message over the link in each direction, then the notices handled so far by each of the eight actors are compared inside Coq",
    "sequential tie: one request at a time to quiescence on both nodes; 'racing with the termination' is the state in which the target has "
    "handled the terminate request and waits for its child (the child's dispatcher is held by the harness) — interleavings inside one "
    "mailbox step are the kernel model's business (one node); the link is up and FIFO (C11); no link failure, no watcher that terminates",
    "the iteration order of the watchers map is not observable (the notices go to pairwise different mailboxes): the model keeps a list",
]

MANIFEST = {
    "text": "Kernel/WatchTable.v: the watcher table of every object changes only by that object's own processing of Watch / Unwatch requests (C06_watcher_table_follows_requests: exact next-table function for every label, from any state) — 'has watched and not unwatched' is a statement about processed requests. Two tied models. (1) Kernel model (watchers, onWatch immediate answer when terminating, dead-letter process answering Watch for unknown addresses, "
            "notification of watchers then parent with the parent skipped among the watchers) replayed in lockstep against the real actor "
            "system with Watch/UnWatch placed at random relative to terminations, including never-existing addresses and watching parents. "
            "Proved for every role table and every run from the fresh system (Kernel/Watch.v, invariant over watcher tables, queued Watch "
            "requests and queued notices, relative to the trace): C06_notified_only_if_entitled — an address handles OnTerminated(w) only if it "
            "issued a Watch for w earlier in the run or is the parent of an object created under w (no spurious notification); "
            "C06_no_duplicate_notice (Kernel/Notice.v: handled notices <= watch requests + children created, for every pair of addresses); a "
            "terminated actor emits nothing further (C06_terminated_is_silent_partial); concrete executions of every clause by vm_compute "
            "Examples. On one node the lower half of the counting clause (never lost) is checked per run by step equality with the model and the "
            "monitors C06:duplicate-notification / C06:missing-notification / sentinel. "
            "(2) Remote watch: executable model of the watch bookkeeping of ONE target whose watchers live on two linked nodes and are "
            "identified by (node, name) — actors with the same logical address on different nodes are different watchers —, the parent, and "
            "the operations Watch w / Unwatch w / the target begins to terminate (waits for its child) / the termination completes, with the "
            "table key as a parameter. Proved by induction for EVERY operation sequence and every injective key (the code's key, the full URL, "
            "is one: C06_remote_url_key_injective): a watcher whose last request before the termination was a Watch and who did not unwatch "
            "while the target was terminating handles exactly one notice for it, plus one per Watch racing with the termination, plus one per "
            "Watch issued afterwards (C06_remote_watching_notified_exactly_once, _atomic_watching); one that never asked, or unwatched last, "
            "handles none but those answers (C06_remote_not_watching_not_notified, _atomic_not_watching); the parent exactly one whatever anybody "
            "requested, a watching parent included (C06_remote_parent_notified_exactly_once); nobody anything before the termination begins "
            "(C06_remote_silent_while_alive); a Watch of an address that never existed is answered exactly once per request "
            "(C06_remote_absent_answered_once_per_watch); FRAME: what a watcher handles depends only on its own requests and the termination "
            "(C06_remote_frame), so a request of another watcher — its namesake on the other node — inserted anywhere changes nothing "
            "(C06_remote_frame_other_watcher). Keyed by the logical address alone the statement is false (Example "
            "C06_remote_keyed_by_name_refuted_example). Each run drives ~2 000 scripts (20 000 thorough) on two REAL actor systems linked "
            "through sharing on loopback (eight recording actors, the same four names on both nodes; Watch/UnWatch before, while and after the "
            "target terminates, by same-name pairs, by the parent and by the parent's namesake, duplicates, references kept or fresh, addresses "
            "that never existed) and compares the notices handled by every actor after every step with the model inside Coq; Go-side monitors "
            "C06:remote:{missing-notification, duplicate-notification, unentitled-notification, late-notification, no-quiescence} restate the "
            "clause on the harness's own ledger.",
    "note": "Partial. One node: the lower half of the counting clause (a notice is never lost) is decided per run (correspondence + monitors), "
            "not by theorem; same trusted base as C03. Two nodes: the counting clause is proved of the sequential bookkeeping model only — one "
            "request at a time to quiescence, link up and FIFO, watchers that do not terminate themselves; the model is tied to the code by runs "
            "(two real systems over loopback gRPC), separately from the kernel model, not to it.",
    "technique": "Coq proof on a message-step kernel model + lockstep differential replay of the real actor system inside Coq; Coq proof "
                 "(induction over every operation sequence, per-watcher automaton + frame) on a two-node watch bookkeeping model + "
                 "differential runs of two real actor systems linked over loopback, compared step by step inside Coq",
}

REMOTE_SUB = {"pkg": "c06remote", "sub": "remote", "kinds": ["C06:remote:"]}


def check(ctx):
    return K.check(ctx, "C06", ["C06:", "kernel:"], "DESIGN.md §6 C06",
                   extra_subs=[REMOTE_SUB], extra_trusted=TRUSTED_REMOTE)


def replay(ctx, path):
    return K.replay(ctx, path, extra_pkgs={"remote": "c06remote"})
