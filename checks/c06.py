# C06 — parent and watchers learn of a termination exactly once
import kernel_common as K

MANIFEST = {
    "text": "Kernel model (watchers, onWatch immediate answer when terminating, dead-letter process answering Watch for unknown addresses, "
            "notification of watchers then parent with the parent skipped among the watchers) replayed in lockstep against the real actor "
            "system with Watch/UnWatch placed at random relative to terminations, including never-existing addresses and watching parents. "
            "Proved for every role table and every run from the fresh system (Kernel/Watch.v, invariant over watcher tables, queued Watch "
            "requests and queued notices, relative to the trace): C06_notified_only_if_entitled — an address handles OnTerminated(w) only if it "
            "issued a Watch for w earlier in the run or is the parent of an object created under w (no spurious notification); a terminated "
            "actor emits nothing further (C06_terminated_is_silent_partial); concrete executions of every clause by vm_compute Examples. The "
            "universally quantified COUNTING clause (exactly one) is not proved; it is checked per run by step equality with the model and "
            "the monitors C06:duplicate-notification / C06:missing-notification / sentinel.",
    "note": "Partial (counting clause by correspondence + monitors only). Same trusted base as C03.",
    "technique": "Coq proof on a message-step kernel model + lockstep differential replay of the real actor system inside Coq",
}


def check(ctx):
    return K.check(ctx, "C06", ["C06:", "kernel:"], "DESIGN.md §6 C06")


def replay(ctx, path):
    return K.replay(ctx, path)
