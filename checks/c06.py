# C06 — parent and watchers learn of a termination exactly once
import kernel_common as K

MANIFEST = {
    "text": "Kernel model (watchers, onWatch immediate answer when terminating, dead-letter process answering Watch for unknown addresses, "
            "notification of watchers then parent with the parent skipped among the watchers) replayed in lockstep against the real actor "
            "system with Watch/UnWatch placed at random relative to terminations, including never-existing addresses and watching parents. "
            "Proved: a terminated actor emits nothing further (C06_terminated_is_silent_partial); concrete executions of every clause are "
            "checked by vm_compute Examples. The universally quantified counting theorem is not proved yet; the clause is checked per run "
            "by step equality with the model and the monitors C06:spurious-notification / C06:duplicate-notification.",
    "note": "Partial. Same trusted base as C03.",
    "technique": "Coq proof on a message-step kernel model + lockstep differential replay of the real actor system inside Coq",
}


def check(ctx):
    return K.check(ctx, "C06", ["C06:", "kernel:"], "DESIGN.md §6 C06")


def replay(ctx, path):
    return K.replay(ctx, path)
