# C09 — a persistent actor recovers exactly the state it had when it last persisted
import vlib

TRUSTED = [
    "hand-written model coq/C09/PersistModel.v of engine/vivid/actor_context.go (StateChanged, SaveSnapshot, Persistence, "
    "recoveryPersistence, tryRestarted, tryTerminated, processMessage's message/sender registers), persistence/state.go and "
    "persistence/memory_storage.go, tied by differential runs on a real ActorSystem (harness/cmd/c09persist) — not a translation",
    "the recording actor of the harness (apply the event, then StateChanged; SaveSnapshot(full state) on OnPersistenceSnapshot; "
    "same message type for commands and replayed events, as in the repository's own persistence test) is the actor the theorems "
    "are about; the actor that records before applying is covered by C09_record_first_recovery_refuted (open finding)",
    "sequential histories: one step at a time (blocking asks from one goroutine), restart decided at once by the supervisor; "
    "lifecycle interleavings are C03-C05's subject",
    "Go harness + generators + monitors (harness/cmd/c09persist, harness/vh), bin/check, lib/vlib.py",
    "Go runtime (slice append/copy semantics; the model is proved for every capacity growth policy)",
]
FINDING = "C09-snapshot-before-apply"
MANIFEST = {
    "text": "For every snapshot threshold (also changed at re-creation), every capacity growth policy of the journal slice and every "
            "history of events, supervised restarts, stop + re-create cycles under one persistence name, explicit persists and queries: "
            "the state of the new actor instance after each launch equals the state the old one had when it persisted, which is the list "
            "of all recorded events in order (any number of generations); the messages delivered during recovery are the last snapshot "
            "followed by exactly the events recorded since, in order, each once; replay leaves the journal and the event count unchanged; "
            "StateChanged leaves ctx.Message()/ctx.Sender() unchanged in every context. Proved in Coq for an executable model with an "
            "explicit heap of slice backing arrays (MemoryStorage keeps the caller's slice: the aliasing is proved unobservable), by "
            "refinement to an abstract journal; the model is run against the real ActorSystem on every check.",
    "note": "Theorems are about the repaired code (fixes/C09-journal-seed.patch, fixes/C09-restore-message.patch; the unrepaired tree "
            "fails the check with replay files) and about the actor that applies an event before recording it; for the actor that "
            "records first the property is refuted in the model and on the implementation (checks/c09_findings.json). Trusted: the "
            "hand-written model (tied by differential runs only), the harness, sequential driving of the system.",
    "technique": "Coq proof (heap/slice model refines an abstract journal, induction over histories) + differential runs on the real ActorSystem + Go-side monitors",
}


def harnesses():
    # the actor that records before it applies violates the property by an open finding; its stream is run once that
    # finding is listed in known_findings.json (then every run reports it as KNOWN-FINDING with a reproduction count)
    on = any(f.get("id") == FINDING for f in vlib.known_findings("C09"))
    return [{"pkg": "c09persist", "sub": "persist", "args": ["-recordfirst"] if on else []}]


HARNESSES = harnesses()


def check(ctx):
    return vlib.standard_check(ctx, ["C09"], "C09/Properties.v", harnesses(), TRUSTED, "DESIGN.md §6 C09",
                               chk_modules=["MV.C09.Properties"])


def replay(ctx, path):
    return vlib.standard_replay(ctx, {"persist": "c09persist"}, path)
