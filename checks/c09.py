# C09 — a persistent actor recovers exactly the state it had when it last persisted
import json
import os
import re

import vlib

TRUSTED = [
    "hand-written model coq/C09/PersistModel.v of engine/vivid/actor_context.go (StateChanged, SaveSnapshot, Persistence, "
    "recoveryPersistence, tryRestarted, tryTerminated, processMessage's message/sender registers), persistence/state.go and "
    "persistence/memory_storage.go, tied by differential runs on a real ActorSystem (harness/cmd/c09persist) — not a translation",
    "the recording actor of the harness (apply the event, then StateChanged; SaveSnapshot(full state) on OnPersistenceSnapshot; "
    "same message type for commands and replayed events, as in the repository's own persistence test) is the actor the theorems "
    "are about; the actor that records before applying is covered by C09_record_first_recovery_refuted (open finding)",
    "sequential histories: one step at a time (blocking asks from one goroutine), restart decided at once by the supervisor; "
    "lifecycle interleavings are C03-C05's subject",
    "storage faults: what is quantified is ANY SUBSET OF THE Storage.Save CALLS of a history returning an error and leaving the storage "
    "exactly as it was (operations PersistF / FailF / StopRecreateF of the model; the fault switch of the harness's recording storage, "
    "which returns the error without delegating). NOT covered: a failing Load or Clear, a Save that fails after a partial write or that "
    "succeeds but reports an error, a storage that loses or reorders records on its own; the storage is MemoryStorage or a map storage "
    "that keeps a copy with spare capacity (harness), one record per persistence name",
    "hand-written machine coq/C09/OrderModel.v (the routine that ends a generation = the list of its statements; persist = begin + commit; "
    "observers on other goroutines; OnLaunch posted to the own mailbox is processed after the routine has returned — mailbox/lock_free.go "
    "handles one message at a time); tie T3 (harness/translate/c09order, go/ast, syntactic, engine/vivid/actor_context.go of the tree under "
    "test): the statements of tryTerminated and tryRestarted are classified by callee name (persist = a call whose name contains 'persist'; "
    "announce = rc.Unregister, deliverySystemMessage in `range ctx.watchers` / to ctx.parentRef / of onLaunch, close(x.closed), "
    "processMessage(onLaunch) / recoveryPersistence inline) and order_safe is proved of the extracted order by vm_compute on every run; a "
    "persist or an announce hidden behind another helper, reflection or a renamed callee is not seen (a persist that is not found breaks the "
    "obligation; an announce that is not found breaks it only if its kind disappears altogether); Storage.Save is assumed to have committed "
    "when it returns",
    "tie T1 of the order model (harness/cmd/c09persist -family notice): real ActorSystem, a storage whose Save sleeps 0..25 ms of real time, "
    "observers that re-create inside OnTerminated / right after Shutdown returns; the interleavings explored are those the Go runtime produces",
    "events recorded inside the last handlers (OnTerminate, own OnTerminated): the Coq side is the syntactic condition handlers_recorded on the "
    "extracted statement order (no ctx.processMessage of the old instance after the last synchronous persist; a handler reached through another "
    "helper is not seen) with the sequential reading hexec; harness/cmd/c09closing (real ActorSystem, MemoryStorage, monitors only) is the search oracle",
    "Go harness + generators + monitors (harness/cmd/c09persist, harness/vh), bin/check, lib/vlib.py",
    "Go runtime (slice append/copy semantics; the model is proved for every capacity growth policy)",
]
FINDING = "C09-snapshot-before-apply"
MANIFEST = {
    "text": "For every snapshot threshold (also changed at re-creation), every capacity growth policy of the journal slice and every "
            "history of events, supervised restarts, stop + re-create cycles under one persistence name, explicit persists and queries, "
            "in which ANY SUBSET OF THE SAVES FAILS (Storage.Save returns an error and leaves the storage as it was): "
            "the state of the new actor instance after each launch equals the state the actor had at its last SUCCESSFUL persist (the "
            "empty state if there never was one) - without failing saves that is the state the old instance had, the list of all recorded "
            "events in order (any number of generations); the messages delivered during recovery are the stored snapshot followed by "
            "exactly the events recorded between it and that persist, in order, each once; replay leaves the journal and the event count "
            "unchanged; nothing that happens without a successful save (events appended in place over a truncated journal, failing "
            "persists, failing restarts) changes what Load returns; "
            "StateChanged leaves ctx.Message()/ctx.Sender() unchanged in every context. Proved in Coq for an executable model with an "
            "explicit heap of slice backing arrays (the stored record is proved separated from the journal's array; MemoryStorage keeping "
            "the caller's slice, State.Load adopting the storage's slice and State.Load keeping the journal when nothing is stored are "
            "each refuted by a history with a failing save), by refinement to an abstract journal with the stored record; the model is "
            "run against the real ActorSystem on every check, with a storage whose saves fail on command. "
            "Ordering across goroutines: for a storage whose Save is not instantaneous (begin, commit; Load returns the committed record) "
            "and observers that re-create the actor under the same persistence name the moment the end of a generation is observable "
            "(unregistration, Terminated notice to a watcher or the parent, the closed signal behind Shutdown, the launch of the new "
            "instance after a restart), every routine whose persist has returned before its first such statement — none deferred, none on "
            "another goroutine, none later — makes every generation load exactly what the previous one ended with, under every schedule "
            "and any mix of terminations and restarts (Coq, invariant over an interleaving machine); announce-then-persist and an "
            "asynchronous persist are refuted by schedules. On every run the statement order of tryTerminated and tryRestarted is extracted "
            "from the tree under test (go/ast) and proved to satisfy that condition, and a real ActorSystem with a slow storage is driven "
            "through generations re-created inside OnTerminated (parent, watcher) and right after Shutdown returns.",
    "note": "Theorems are about the repaired code (fixes/C09-journal-seed.patch, fixes/C09-restore-message.patch, "
            "fixes/C09-memory-storage-copy.patch, fixes/C09-no-record-resets-journal.patch; a tree without one of them "
            "fails the check with replay files) and about the actor that applies an event before recording it. Storage faults: any "
            "subset of the Save calls fails cleanly; a failing Load or Clear, partial writes and a Save that fails after having written "
            "are not modelled. For the actor that "
            "records first the property is refuted in the model and on the implementation (checks/c09_findings.json). Trusted: the "
            "hand-written models (tied by differential runs and, for the order of the termination/restart routines, by a syntactic "
            "extraction), the harness, sequential driving of the system in the history runs, real-time latencies in the notice runs.",
    "technique": "Coq proof (heap/slice model with failing saves refines an abstract journal with the stored record, separation invariant, "
                 "induction over histories; interleaving machine with two-step Save, "
                 "invariant) + go/ast extraction of the statement order (vm_compute obligation) + differential runs on the real ActorSystem "
                 "with fault injection in the storage + Go-side monitors",
}

T3_NAMES = ["C09_source_terminate_order", "C09_source_restart_order", "C09_source_persist_synchronous",
            "C09_recreate_on_notice_exact_for_this_source"]


def harnesses():
    # the actor that records before it applies violates the property by an open finding; its stream is run once that
    # finding is listed in known_findings.json (then every run reports it as KNOWN-FINDING with a reproduction count)
    on = any(f.get("id") == FINDING for f in vlib.known_findings("C09"))
    return [{"pkg": "c09persist", "sub": "persist", "args": ["-recordfirst"] if on else []},
            {"pkg": "c09persist", "sub": "notice", "args": ["-family", "notice"]},
            # search oracle for the clause proved by C09_last_handlers_are_persisted (events recorded in OnTerminate / own OnTerminated)
            {"pkg": "c09closing", "sub": "closing", "coq": False}]


HARNESSES = harnesses()


def _nats(out, name):
    m = re.search(name + r"\s*=(.*?):\s*list nat", out, re.S)
    return [int(x) for x in re.findall(r"\d+", m.group(1))] if m else []


def _why(f, earlier_now):
    k = f["kind"]
    if k == "go-persist":
        return "the persist runs on another goroutine (or inside a function literal nobody waits for)"
    if k == "defer-persist":
        return "the persist is deferred: it runs when the routine returns, i.e. after every statement below it"
    if k == "persist":
        if f["conditional"]:
            return "the persist sits inside a conditional: it may not run"
        return "the persist comes after the end of the generation is already observable (%s)" % earlier_now
    if k.startswith("announce:"):
        return "makes the end of the generation observable (%s) before any persist has returned" % k.split(":", 1)[1]
    return k


def run_t3(ctx):
    """Tie T3: extract the statement order of tryTerminated / tryRestarted from the tree under test, compile the facts and the
    instance theorems. Returns (ok, message, facts)."""
    d = os.path.join(ctx.scratch, "t3")
    os.makedirs(d, exist_ok=True)
    try:
        exe = vlib.go_build(ctx, "./translate/c09order", name="c09order")
    except vlib.CheckError as e:
        return False, "T3: cannot build harness/translate/c09order: %s" % str(e)[-800:], None
    src = os.path.join(vlib.REPO, "engine/vivid/actor_context.go")
    rc, o, e, _ = vlib.sh([exe, "-repo", vlib.REPO, "-out", d], timeout=120)
    if rc != 0:
        return False, "T3: the routines that end a generation (tryTerminated, tryRestarted) cannot be read from %s: %s" % (src, (o + e)[-800:]), None
    facts = json.loads(o.strip().splitlines()[-1])
    ctx.extra["t3_order"] = {fn: ["%d:%s%s" % (f["line"], f["kind"], "?" if f["conditional"] else "") for f in facts[fn] if f["kind"] != "other"]
                             for fn in ("tryTerminated", "tryRestarted")}
    ctx.extra["t3_persist_chain"] = facts["persist_chain"]
    coqc = ["coqc", "-Q", vlib.COQ, "MV", "-Q", d, ""]
    rc, o1, e1, _ = vlib.sh(coqc + [os.path.join(d, "Extracted.v")], cwd=d, timeout=900)
    if rc != 0:
        return False, "T3: the extracted facts do not compile against MV.C09.OrderModel: %s" % (o1 + e1)[-800:], facts
    rc, o2, e2, _ = vlib.sh(coqc + [os.path.join(d, "Instance.v")], cwd=d, timeout=900)
    if rc == 0:
        bad = vlib.FORBIDDEN.search(vlib.strip_comments(open(os.path.join(d, "Extracted.v")).read() + open(os.path.join(d, "Instance.v")).read()))
        closed = len(re.findall(r"Closed under the global context", o2))
        if bad or closed != len(T3_NAMES):
            return False, "T3: instance theorems not closed under the global context:\n" + o2[-800:], facts
        return True, "", facts
    # broken: name the function and the offending statements
    parts = []
    for fn, offname, thm in (("tryTerminated", "TermOffenders", "C09_source_terminate_order"),
                             ("tryRestarted", "RestartOffenders", "C09_source_restart_order")):
        lines = _nats(o1, offname)
        fs = facts[fn]
        kinds = {f["kind"] for f in fs}
        missing = []
        if fn == "tryTerminated":
            missing = [k for k in ("announce:unregister", "announce:watchers", "announce:parent", "announce:closed") if k not in kinds]
        elif not ({"announce:launch", "announce:launch-inline"} & kinds):
            missing = ["announce:launch (OnLaunch posted to the own mailbox or handled inline)"]
        if not lines and not missing:
            continue
        offs = []
        for ln in lines:
            for f in fs:
                if f["line"] == ln and f["kind"] != "other" and f["kind"] != "guard":
                    earlier = ", ".join("%s at line %d" % (g["kind"].split(":", 1)[1], g["line"]) for g in fs
                                        if g["kind"].startswith("announce:") and g["kind"] != "announce:launch" and g["line"] < ln)
                    offs.append("line %d `%s`: %s" % (ln, f["text"], _why(f, earlier)))
                    break
        order = " ; ".join("%d %s%s" % (f["line"], f["kind"], " (conditional)" if f["conditional"] and "persist" in f["kind"] else "")
                           for f in fs if f["kind"] not in ("other", "guard"))
        parts.append("T3 obligation %s is broken by %s of %s — %s%s. Extracted order: [%s]" % (
            thm, fn, src, "; ".join(offs) if offs else "no offending statement",
            (" ; not found any more: %s (the translator cannot see how the end becomes observable)" % missing) if missing else "", order))
    chain_bad = [c["what"] for c in facts["persist_chain"] if not c["ok"]]
    if chain_bad or not facts["persist_chain"]:
        parts.append("T3 obligation C09_source_persist_synchronous is broken: %s" % (chain_bad or "ctx.Persistence() not found"))
    msg = ("The ordering 'the last persist of a generation has been committed before the end of that generation becomes observable "
           "(unregistration, Terminated notices, the closed signal, the launch of the next instance) and before the next generation loads' is "
           "no longer established for this source, so C09_recreate_on_notice_exact does not apply to it; for a persist that runs after the "
           "announce see C09_announce_then_persist_refuted / C09_restart_launch_then_persist_refuted (a re-creation on the notice loads a "
           "missing or stale record when Storage.Save takes time). ")
    return False, msg + " || ".join(parts) + " || coqc: " + (o2 + e2)[-300:].replace("\n", " "), facts


def t3(ctx):
    ctx.obligations += len(T3_NAMES)
    ok, msg, _ = run_t3(ctx)
    if not ok:
        ctx.proof_errors.append(msg)
        return
    for n in T3_NAMES:
        ctx.theorems.append(n)
        ctx.axioms[n] = []
        ctx.discharged += 1


def check(ctx):
    return vlib.standard_check(ctx, ["C09"], "C09/Properties.v", harnesses(), TRUSTED, "DESIGN.md §6 C09",
                               checker_extra="; go run harness/translate/c09order && coqc Extracted.v Instance.v (statement order of "
                                             "tryTerminated / tryRestarted of the tree under test satisfies order_safe)",
                               chk_modules=["MV.C09.Properties"], pre=t3)


def replay(ctx, path):
    d = json.load(open(path))
    if "broken_obligations" in d and not d.get("sub"):
        # a run whose proof obligations broke without a failing input: re-establish (or not) the obligations on the present tree
        ok = vlib.coq_make(ctx, ["Lib", "C09"])
        t3ok, msg, facts = run_t3(ctx) if ok else (False, "coq build failed", None)
        print(json.dumps({"broken_obligations_recorded": [b[:400] for b in d.get("broken_obligations") or []],
                          "order_obligations_hold_now": t3ok, "now": msg[:1500],
                          "order_now": ctx.extra.get("t3_order")}))
        return 0 if t3ok else 1
    return vlib.standard_replay(ctx, {"persist": "c09persist", "notice": "c09persist", "closing": "c09closing"}, path)
