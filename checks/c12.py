# C12 — an address resolves to its currently registered process, or to dead letters
import glob
import os
import re

import vlib

T2_SOURCES = ["engine/prc/resource_controller.go", "engine/prc/resource_controller_configuration.go",
              "engine/prc/resource_controller_configurator.go", "engine/prc/process_id.go", "engine/prc/process_id.pb.go",
              "engine/prc/process.go", "engine/prc/defines.go", "engine/prc/physical_address_resolver.go"]
T2_REWRITES = {'"github.com/puzpuzpuz/xsync/v3"': 'xsync "verif/harness/shim/c12xsync"',
               '"sync/atomic"': 'atomic "verif/harness/shim/c12atomic"'}
TRUSTED = [
    "hand-written machine coq/C12/ConcModel.v of engine/prc/resource_controller.go + the cache field of process_id.pb.go (one step per "
    "operation on shared memory, in program order), tied by per-step replay of schedules executed on the instrumented CURRENT source "
    "(tie T2: lib/vlib.t2_build, harness/shim/{tsched,c12xsync,c12atomic}, harness/t2/c12reg/driver.go.txt) — not a translation",
    "xsync.MapOf taken by its contract: Load/LoadOrStore/LoadAndDelete linearizable single steps, Compute holds the entry's lock while its "
    "function runs (shim harness/shim/c12xsync; the real map is exercised by the stress harness c12stress and the sequential harness); "
    "sync/atomic sequentially consistent",
    "Process contract of engine/vivid/actor_process.go (Terminate stores the flag IsTerminated loads, never cleared) and one NEW process "
    "object per Register call; processes with IsTerminated constantly false (abyss, shared stream) are modelled (KSticky) but outside the theorems",
    "hand-written sequential models coq/C12/RegModel.v (registry with cache) and coq/C12/AddrModel.v (Derivation/Equal/URL over byte strings; "
    "URL.String only for never-escaped characters), tied by differential runs through the public prc API (harness/cmd/c12reg, c12addr)",
    "hand-written model coq/C12/EqModel.v of reference objects with their cache field (constructors, Register with aliases, Unregister, "
    "GetProcess with a resolver, views, Equal over all ordered pairs), tied by differential runs on real *prc.ProcessId objects put into "
    "every combination of cache states through the public prc API (harness/cmd/c12equal); the cache states are inferred from the "
    "recorded lookup results (the field itself is not read)",
    "Go harnesses, generators and monitors (harness/cmd/c12*, harness/t2/c12reg, harness/vh), bin/check, lib/vlib.py; Go runtime",
]
HARNESSES = [{"pkg": "c12reg", "sub": "reg"}, {"pkg": "c12addr", "sub": "addr"}, {"pkg": "c12equal", "sub": "equal"}]
MANIFEST = {
    "text": "Coq theorems over every reachable state of an interleaving machine of the registry (unbounded Register/Unregister/GetProcess "
            "threads, shared and private reference objects with their caches, address reuse): registering a taken address is refused in one "
            "atomic step that changes nothing; a registered process stays the registrant until an Unregister deletes it; with the repaired "
            "Unregister (Terminate under the entry lock, then delete — fixes/C12-unregister-terminate-before-delete.patch) every lookup that "
            "runs while p is registered and no Unregister of the address is pending or started returns p whatever the reference cached "
            "(C12_lookup_window), while for Unregister as shipped the same statement is refuted by a 19-step schedule; in both variants a "
            "lookup started after the Unregister of p returned never yields p, the cache only holds processes registered under that address, "
            "and lookups yield dead letters or a process registered under that address. Sequentially the registry with caches refines a "
            "plain map for all operation sequences. Derivation is injective for API names (jointly with the parent), Equal is an "
            "equivalence that coincides with equality of node and local address, and every address-level operation on references (Equal, "
            "getters, URL, Clone, Derivation, copies) is unaffected by any sequence of registry operations, i.e. by the hidden cache state "
            "of either reference (C12_address_ops_ignore_cache_state). On every run: the current source is instrumented (map and atomics become scheduler steps) and hundreds "
            "of schedules are replayed step by step in Coq; thousands of sequential op sequences and address cases are compared with the "
            "models in Coq; real references are driven through every combination of cache states (never resolved, own process, a process "
            "shared with a reference of another address via an alias registration or a per-node resolver, stale) with Equal taken over "
            "every ordered pair before and after every transition; a stress harness runs the real code with goroutines; Go monitors restate the clauses on recorded histories.",
    "note": "Needs fixes/C12-unregister-terminate-before-delete.patch: on the unpatched tree bin/check C12 reports VIOLATION "
            "(regconc:GetProcess:stale-after-reregistration, also reproduced on the real code by c12stress). Trusted: Coq kernel+vm_compute; "
            "hand-written models checked per executed step / per case only on the explored schedules and inputs; xsync contract; Process "
            "contract; fresh process object per Register. Remote resolvers (PhysicalAddressResolver) appear only as pure functions of the id "
            "(per node / per id / one gateway process) in the Equal-vs-cache model; what a resolver does over the network is C11.",
    "technique": "Coq invariant proof over an unbounded-thread interleaving machine + per-step schedule replay of the instrumented source; "
                 "refinement proof of the sequential registry + differential runs; string-algebra proofs + differential runs; stress + monitors",
}


def _variant_note(ctx, outdir):
    """When the replay against the repaired machine diverges: does the current source follow the algorithm as shipped?"""
    bad = tot = 0
    for f in sorted(glob.glob(os.path.join(outdir, "regconc_shard_*.v")))[:4]:
        g = f[:-2] + "_asshipped.v"
        open(g, "w").write(open(f).read().replace("in mismatches cases", "in mismatches_as_shipped cases"))
        rc, o, e, dt = vlib.sh(["coqc", "-Q", vlib.COQ, "MV", g], cwd=outdir, timeout=600)
        m = re.search(r"Mids\s*=(.*?):\s*list", o, re.S)
        if rc != 0 or not m:
            return
        bad += len(re.findall(r"(\d+)%nat", m.group(1)))
        tot += 1
    if tot and bad == 0:
        ctx.notes.append("the instrumented source replays without divergence against the machine of Unregister AS SHIPPED (Reg false: "
                         "LoadAndDelete, then Terminate), for which C12_lookup_window is refuted in Coq "
                         "(C12_lookup_window_as_shipped_refuted); fixes/C12-unregister-terminate-before-delete.patch is not applied")


def check(ctx):
    ctx.trusted += TRUSTED
    bad = vlib.forbidden_scan()
    if bad:
        ctx.proof_errors.append("forbidden constructs: %s" % bad[:5])
    if vlib.coq_make(ctx, ["Lib", "C12"]):
        vlib.coq_properties(ctx, "C12/Properties.v")
    for h in HARNESSES:
        vlib.run_harness(ctx, vlib.go_build(ctx, h["pkg"]), h["sub"])
    b = vlib.t2_build(ctx, "regconc", "prc", T2_SOURCES, "c12reg", rewrites=T2_REWRITES)
    n0 = len(ctx.mismatch)
    outdir = vlib.run_harness(ctx, b, "regconc")
    if len(ctx.mismatch) > n0:
        _variant_note(ctx, outdir)
    vlib.run_harness(ctx, vlib.go_build(ctx, "c12stress"), "regstress", coq=False)
    if ctx.tier == "thorough":
        vlib.coqchk(ctx, ["MV.C12.Properties"])
    return vlib.finish(ctx, "make -C coq && coqc C12/Properties.v (Print Assumptions per theorem); go build harness/cmd/{c12reg,c12addr,c12equal,c12stress} "
                            "against the /repo working tree; instrument + build the current registry sources (t2_build); coqc <generated shards> (vm_compute)",
                       "DESIGN.md §6 C12", search=vlib.default_search)


def replay(ctx, path):
    import json
    sub = json.load(open(path)).get("sub")
    if sub == "regconc":
        b = vlib.t2_build(ctx, "regconc", "prc", T2_SOURCES, "c12reg", rewrites=T2_REWRITES)
        rc, out, err, _ = vlib.sh([b, "-replay", path], timeout=600)
        print(out.strip())
        if err.strip():
            print(err.strip())
        return rc
    return vlib.standard_replay(ctx, {"reg": "c12reg", "addr": "c12addr", "equal": "c12equal", "regstress": "c12stress"}, path)
