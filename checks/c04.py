# C04 — a failing actor is suspended and the supervisor's directive is applied
import kernel_common as K

MANIFEST = {
    "text": "Kernel model (supervision: ReportAbnormal, suspension at delivery time, escalation, victim and supervisor strategies, "
            "Restart/Stop/Resume/Escalate) replayed in lockstep against the real actor system with failures injected by scripted panics and "
            "ReportAbnormal in user-message, OnLaunch and lifecycle handlers, all four directives, by-count directive lists. Proved: a suspended "
            "mailbox never hands a user message to the actor (C04_suspended_pops_no_user_partial) and, for C02, message conservation across "
            "failure/restart/stop. The trace-level statement 'no user message between failure and decision' and the directive effects are "
            "checked per run (monitor C04:user-message-before-decision + step-by-step equality with the model), not yet by theorem.",
    "note": "Partial. Back-off delays of OneForOne (time.AfterFunc) and restart limits are outside the lockstep model (covered by C18 for the "
            "delay function). Open finding shared with C05: a panic in a lifecycle handler of a non-alive actor blocks shutdown.",
    "technique": "Coq proof on a message-step kernel model + lockstep differential replay of the real actor system inside Coq",
}


def check(ctx):
    return K.check(ctx, "C04", ["C04:", "kernel:"], "DESIGN.md §6 C04")


def replay(ctx, path):
    return K.replay(ctx, path)
