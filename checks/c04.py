# C04 — a failing actor is suspended and the supervisor's directive is applied
# Two sub-checks: the kernel model (klock, shared with C03/C05/C06) and the supervision strategy layer (c04strat).
import kernel_common as K
import vlib

TRUSTED_STRAT = [
    "hand-written model coq/C04/StratModel.v of engine/vivid/supervision/{one_for_one,accident_state,restart_strategy,stop_strategy,"
    "resume_strategy,directive}.go (one strategy instance shared by all victims, per-victim accident count, multiset of pending "
    "time.AfterFunc timers), tied on every run by differential execution (harness/cmd/c04strat): the REAL strategy objects are driven "
    "with generated Fail/Solved/Advance sequences against a fake Supervisor inside a testing/synctest bubble (go1.26.8, virtual "
    "time), and the calls with their exact virtual timestamps and AccidentCount() after every operation are compared inside Coq",
    "the back-off delay is an oracle input of the strategy model: chrono.StandardExponentialBackoff is called by the harness with its "
    "own failure count under the same injected random draw (global generator of math/rand/v2 replaced via go:linkname, link flag "
    "-checklinkname=0); the model only requires the contract that C18 proves (-1 iff limit set and count > limit, else 0 <= d <= max)",
    "deciders are functions of (victim, AccidentCount of the record); calls of timers that fire at the same virtual instant are "
    "compared in timer-creation order (each call carries its own timestamp)",
    "the kernel's use of the layer (ReportAbnormal = Record + OnPolicyDecision at the supervisor, Solved after a successful OnLaunch: "
    "actor_context.go:305-348, 426) is reproduced by the harness by hand; how the kernel reacts to Supervisor.Restart/Stop/Resume/"
    "Escalate is the kernel sub-check's business",
]

MANIFEST = {
    "text": "Two tied models. (1) Kernel model (supervision: ReportAbnormal, suspension at delivery time, escalation, victim and supervisor "
            "strategies, Restart/Stop/Resume/Escalate as IMMEDIATE scripted directives) replayed in lockstep against the real actor system "
            "with failures injected by scripted panics and ReportAbnormal in user-message, OnLaunch and lifecycle handlers. A Resume decision is a QUEUED request (SResumeReq) that the victim applies itself and only while alive (fix 925aa8b). "
            "Directive effects (Kernel/Directive.v): the step in which a supervisor runs an accident record decides what the configuration says (victim strategy, else the supervisor's "
            "directive list at the victim's accident count, else escalation), shows it first, and queues exactly the message carrying that directive at the victim's registered object "
            "(the same record at the supervisor's parent for Escalate; a crash beyond the root) — C04_decided_directive_takes_effect; Resume keeps instance number and queues "
            "(C04_resume_continues_same_instance_and_queue); the step that takes a restart request keeps the queued user messages in order and shows OnRestarting first (C04_restart_request_keeps_queue); a terminate request makes its receiver terminating (C04_stop_request_makes_receiver_terminating). "
            "Proved: a suspended "
            "mailbox never hands a user message to the actor, a suspension (with no resume request pending for the address) is lifted only by the directive (Resume, completed restart, "
            "termination), registry well-formedness; the trace-level statement 'no user message between failure and decision' is checked "
            "per run (monitor C04:user-message-before-decision + step-by-step equality with the model). "
            "(2) Strategy layer (OneForOne with restart limit and back-off timers, AccidentState, canned Restart/Stop/Resume): executable "
            "model of ONE strategy instance shared by any number of victims with the multiset of pending time.AfterFunc timers. Proved for "
            "every operation sequence, any number of victims, every limit/base/max and every decider of (victim, count): what happens to a "
            "victim (calls, pending timers, count) is exactly what its own operations produce — a sibling's failure never cancels, delays or "
            "duplicates a restart (C04_strat_sibling_independence); the Restart calls made plus the timers pending are exactly the restarts "
            "granted, each carried out exactly once at decision time + decided delay, never earlier, pending until then "
            "(C04_strat_restart_ledger, _exactly_once, _restart_granted: delay in [0, max]); with limit >= 0 the (limit+1)-th consecutive "
            "failure is answered by Stop at once and no timer (C04_strat_limit_honoured); the count is the number of failures since Solved, "
            "without saturation (C04_strat_count_exact, _count_laws); Stop/Resume/Escalate and the canned strategies call exactly that, at "
            "once, no timer (C04_strat_immediate_calls, _directive_at_once, _canned_at_once); the contract demanded of the back-off oracle is what "
            "C18 proves of its back-off model (C04_strat_oracle_contract_is_C18). Each run drives the real strategy objects "
            "with ~1 600 sequences (30 000 + every sequence of length <= 6 over 5 operations, thorough) on virtual time (synctest) and compares "
            "every Supervisor call, its timestamp and AccidentCount() with the model inside Coq; Go-side monitors C04:strategy:* restate "
            "the property (restart missing/duplicated/early/late/after-limit, stop missing, sibling affected by differential rerun of each "
            "victim alone, count wrong). "
            "(3) no model: a real-time, truly parallel stress family (harness/cmd/c04esc: 2-8 supervisors deciding Resume on OTHER goroutines than "
            "their 4-24 failing workers, ~130 000 messages / ~55 000 accidents per run; monitors C04:esc:resume-lost, user-message-before-decision, "
            "failure-not-decided, worker-terminated-under-resume, shutdown-hangs) as search oracle for races between the failing step and the decision "
            "that the lock-step harness cannot schedule.",
    "note": "Partial. The two models are tied to the code separately, not to each other: that the kernel calls Record/OnPolicyDecision/Solved "
            "as the strategy harness does, and that a Restart arriving after a delay (instead of immediately) leaves the kernel theorems "
            "intact, is argued by reading actor_context.go, not proved. The VALUE of the back-off delay (exponential growth, jitter band) is "
            "C18's business: here it is an oracle input constrained by the contract of StandardExponentialBackoff, and run against the real "
            "function on every case. Since /repo bde59a1 a new actor's mailbox is created suspended and resumed when the actor takes up its first OnLaunch; the model does not carry that flag (its spawn queues OnLaunch in the same step, and the system queue is always served first, so no user message can be taken before OnLaunch in the model either): the suspension theorems speak about the suspensions the model has — failures and restarts. Deciders that depend on more than (victim, count), e.g. on wall time or on other victims, are outside the "
            "independence theorem.",
    "technique": "Coq proof on a message-step kernel model + lockstep differential replay of the real actor system inside Coq; "
                 "Coq proofs (simulation for independence, multiset ledger for timers) on a timer-level strategy model + differential "
                 "runs of the real strategy objects on synctest virtual time with the back-off as an injected oracle",
}

STRAT = {"pkg": "c04strat", "sub": "strat", "go": "go1.26.8", "kinds": ["C04:strategy:"]}
# real-time, truly parallel stress family (monitors only): supervisors deciding on OTHER goroutines than the failing workers
ESC = {"pkg": "c04esc", "sub": "esc", "coq": False, "kinds": ["C04:esc:"]}
TRUSTED_ESC = [
    "sub-harness 'esc' (harness/cmd/c04esc): search oracle only, no model — real ActorSystem in real time with GOMAXPROCS >= 4 (also 4x "
    "oversubscribed), 2-8 supervisors (ants pool or calling-thread dispatcher) x 4-24 workers under a Resume-always strategy, every k-th serial "
    "fails (panic / ReportAbnormal) with later serials queued behind; 1.5 s without progress counts as quiescent; the interleavings are those the Go "
    "runtime happens to produce",
]

_orig_go_build = vlib.go_build


def _go_build(ctx, pkg, **kw):
    # c04strat is a test binary (synctest needs *testing.T) and replaces math/rand/v2's global generator via go:linkname
    if pkg == "c04strat":
        kw["test"], kw["go"], kw["extra"] = True, "go1.26.8", ["-ldflags=-checklinkname=0"]
    return _orig_go_build(ctx, pkg, **kw)


def check(ctx):
    vlib.go_build = _go_build
    return K.check(ctx, "C04", ["C04:", "kernel:"], "DESIGN.md §6 C04; docs/C04-STRATEGY-NOTES.md",
                   extra_subs=[STRAT, ESC], extra_trusted=TRUSTED_STRAT + TRUSTED_ESC)


def replay(ctx, path):
    vlib.go_build = _go_build
    return K.replay(ctx, path, extra_pkgs={"strat": "c04strat", "esc": "c04esc"})
