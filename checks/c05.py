# C05 — termination is hierarchical and complete; shutdown waits for everyone
import kernel_common as K

MANIFEST = {
    "text": "Kernel model (children bookkeeping, graceful flag, tryTerminated, parent/watchers notification, registry, closed flag) replayed "
            "in lockstep against the real actor system over random trees with terminations, restarts, re-spawns and sends in flight, ending "
            "with Shutdown. The full statements are proved FALSE of the faithful model with vm_compute witnesses for two open findings "
            "(C05_shutdown_completes_refuted: lifecycle-handler panic; C05_registry_empty_after_shutdown_refuted: re-spawn before the parent "
            "was notified). Everything else (descendant order, drain before graceful terminate, closed, empty registry) is checked per run by "
            "step-by-step equality with the model and the C05 monitors; universally quantified lemmas are being added.",
    "note": "Partial (two refuted clauses = open findings; no universal theorem for the ordering clause yet). Same trusted base as C03.",
    "technique": "Coq proof on a message-step kernel model + lockstep differential replay of the real actor system inside Coq",
}


def check(ctx):
    return K.check(ctx, "C05", ["C05:", "kernel:"], "DESIGN.md §6 C05")


def replay(ctx, path):
    return K.replay(ctx, path)
