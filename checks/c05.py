# C05 — termination is hierarchical and complete; shutdown waits for everyone
# Three sub-checks: the kernel model (klock, shared with C03/C04/C06: actors), the temporary reply addresses (c05addr) and
# the spawn that overlaps the termination / restart of its parent (SpawnModel + tie T3 c05spawn + forced interleavings c05spawn).
import glob
import json
import os
import re
import shutil
import time

import kernel_common as K
import vlib

FINDING_PENDING = "C05-pending-ask-outlives-shutdown"

TRUSTED_ADDR = [
    "hand-written model coq/C05/AddrModel.v of the life of the temporary addresses (engine/future/future.go New / Initialize / Close / "
    "DeliveryUserMessage / AwaitForward, engine/vivid/actor_context.go FutureAsk / AwaitForward and the termination / restart paths that do "
    "NOT touch futures, engine/vivid/future.go typed ask, engine/vivid/actor_system.go FutureAsk / AwaitForward / Shutdown), a future "
    "abstracted to 'registered from creation to its one completion' (the inside of one future is C07's machine), tied on every run by "
    "differential execution (harness/cmd/c05addr): scripts run on the REAL vivid.ActorSystem inside a testing/synctest bubble (go1.26.8, "
    "virtual time; default dispatcher replaced through the verif hook), the ResourceController is enumerated after EVERY operation (hook "
    "VerifResourceController + reflection over the unexported process table, probing of the predictable addresses as a fall-back) and "
    "the clock, the registered set and every completion (how, when) are compared inside Coq",
    "scripted behaviour of the harness actors (targets answering at once / after a delay by sleeping in the handler or from a goroutine / "
    "never / when told to; asker actors under a supervisor that restarts at once); answer and timeout are never generated for the same "
    "instant (either may win there); the API is not used after Shutdown",
    "synctest's virtual clock and quiescence detection (synctest.Wait after every operation)",
]

TRUSTED_SPAWN = [
    "hand-written machine coq/C05/SpawnModel.v of a spawn that overlaps the termination / restart of its parent (engine/vivid/actor_context.go: "
    "ActorOf with newActorContext and the refBinder closure — Register, the entry into the parent's children table, the delivery of OnLaunch, "
    "the load of the PARENT's status, the conditional terminate request — as separate atomic steps of any number of spawner goroutines, against the "
    "parent's own loop: onTerminate / onRestart (status CAS, then one step for the loop over the children table), onTerminated (entry deleted "
    "only for an unregistered child), tryTerminated / tryRestarted (len(children) == 0, then the final status store), a terminate overtaking a "
    "restart), PARAMETERISED by the order of the spawner's steps; a terminate request to an unregistered address is lost; a child that was told "
    "stops at some later moment; the loop over the children map is ONE step (the unsynchronised map itself — ActorSystem.ActorOf writes the "
    "guard's table on the caller's goroutine — is the observation of DESIGN §7.4, outside this machine)",
    "tie T3 (harness/translate/c05spawn, go/ast, syntactic, package engine/vivid of the tree under test): ActorOf is walked in execution order "
    "with newActorContext, the function literal it returns (where ActorOf calls it) and every package function / method called on the parent's "
    "or the child's context inlined; which identifiers denote the parent and which the child is tracked by data flow (`ctx` is re-bound to the "
    "child); extracted: Register, `<parent>.children[..] = ..`, the call carrying onLaunch, every `<parent>.status.Load()`, and `X.Terminate(..)` "
    "with the enclosing if-conditions evaluated symbolically for 'alive' / 'not alive' (==, != against actorStatusAlive, !, &&, ||, boolean or "
    "raw-status locals assigned from such an expression); SpawnInstance.v proves by vm_compute that the list is accepted by order_ok — steps "
    "under go / defer / loops / switch, inside a callback, after a conditional return, a guard that cannot be evaluated or that depends on two "
    "reads are rejected; reflection, unsafe, aliases of the children map and helpers of other packages are not seen",
    "tie T1 sub-harness 'spawn' (harness/cmd/c05spawn): search oracle and always-on monitor — the interleavings of the machine FORCED on the real "
    "ActorSystem: user code that runs inside ActorOf (descriptor configurator, ActorProvider.Provide, dispatcher provider, mailbox provider) "
    "issues the request and waits until the parent has taken it up and every mailbox is idle (one tracking dispatcher for every actor, default "
    "dispatcher replaced through the hook VerifSetDefaultDispatcher; held children counted), then lets ActorOf go on; registry enumerated "
    "through the hook VerifResourceController + reflection; bounds of 4 s (quick) / 10 s (thorough) decide 'hangs'; every case in a child "
    "process; a Go runtime abort 'concurrent map ..' of the unforced stress family, and a hang / left-over actor of that family, are counted as "
    "observations (DESIGN §7.4: the unsynchronised children map), not as hits",
]

MANIFEST = {
    "text": "Kernel/Descend.v: the step in which a living or restarting actor takes a terminate request hands a terminate request (non-graceful in the system queue, or graceful at the tail of the user messages) to the object registered under every child it had (C05_terminate_request_reaches_every_child; no hypotheses, from any state). (4) Two linked nodes (harness/cmd/c06remote -twin, monitors only): a termination notice from the OTHER node that names an address a living local child also has leaves the parent's children table alone (C05:remote-notice:living-child-dropped). Two tied models. (1) Kernel model (children bookkeeping incl. stale-notice handling, graceful flag, tryTerminated, parent/watchers "
            "notification, registry, closed flag) replayed in lockstep against the real actor system over random trees with terminations, "
            "restarts, re-spawns, watch-before-spawn, spawns from termination handlers and sends in flight, ending with Shutdown. Proved for "
            "every role table that never spawns from an actor's own OnTerminated handler nor under a system address, and every label sequence "
            "(Kernel/Hierarchy.v, invariant RI/H2..H7 over registry, parent and children tables): C05_hierarchical_partial — in every "
            "reachable state a still-registered actor has a still-registered parent that lists it, so no actor finishes terminating before "
            "any descendant; C05_no_registered_child_of_unregistered_parent_partial. The excluded script behaviour is a real defect, proved "
            "as C05_registry_empty_after_shutdown_refuted (spawn inside the final OnTerminated creates an orphan nobody waits for: open "
            "finding). Under the same two hypotheses (Kernel/Shutdown.v, on the invariant strengthened by 'the registered parent is an "
            "older object' and 'the guard is the only parentless object'): C05_shutdown_returns_after_everyone_partial — in every run, the "
            "very step that sets the closed flag (what Shutdown returns on) leaves the registry EMPTY and every actor object terminated; "
            "the flag is set only by the guard finishing with an empty children table, and every other registered object would have a "
            "well-founded chain of registered ancestors ending in that table. Liveness is refuted for GRACEFUL termination: "
            "C05_graceful_shutdown_completes_refuted (a descendant suspended after a failure never takes the graceful request — a user "
            "message — when its supervisor's decision does not release it: Shutdown(true) hangs; open finding, found by the lockstep "
            "search with seed 301). C05_graceful_request_queued_behind_partial (Kernel/Queue.v: a graceful request is appended behind every user "
            "message already queued and the mailbox is consumed in order). The former witness of a lifecycle-handler panic blocking "
            "Shutdown is repaired in /repo (example C05_panic_in_onterminate_no_longer_blocks_shutdown). Graceful drain, closed flag and "
            "empty registry are checked per run by step-by-step equality with the model and the C05 monitors. "
            "(2) Temporary reply addresses (the futures FutureAsk / the typed ask / AwaitForward register under <actor>/<n>): executable "
            "model of the SET of registered temporary addresses of a whole system in virtual time. Proved for every sequence of asks (target "
            "answers after a delay / never / when told to; timeout or none), AwaitForwards, passages of time, terminations and restarts of "
            "askers with asks pending, and Shutdown anywhere: an address is registered exactly from its creation to its one completion "
            "(C05_addr_registered_iff_not_completed, _registered_is_pending: released in the very instant of the first of answer and "
            "timeout, _completion_is_first_of_answer_and_timeout, _never_registered_again, _ask_registered_from_creation, _ids_identify); an "
            "address with a timer is gone once the clock reaches it, asker dead or alive, system shut down or not (_gone_at_timeout, "
            "_asks_released_by_time); once every ask is answered or past its timeout no ask address is registered, only AwaitForwards can be "
            "(_no_ask_once_settled), with their functions returned nothing at all, in particular when Shutdown returns after that point and "
            "for ever after (_empty_once_settled, _empty_after_settled_shutdown); terminating or restarting the asker and Shutdown close no "
            "future (_stop_and_restart_touch_nothing, _shutdown_is_only_time). Refuted: with the model's flag rel=false (the code as it was "
            "shipped) an AwaitForward address is NEVER released (_awaitforward_released_as_shipped_refuted, "
            "_awaitforward_as_shipped_refuted_for_ever; genuine defect, repaired in /repo by a4a4636, the correspondence runs the model "
            "with rel=true); the literal clause 'after Shutdown no temporary address remains' is false also of the repaired code for asks "
            "still pending when Shutdown is called — they stay until their timeout, for ever without one "
            "(_no_address_after_shutdown_refuted, _stop_releases_pending_asks_refuted, _untimed_ask_refuted_for_ever; open finding "
            "C05-pending-ask-outlives-shutdown). Each run drives ~2 000 scripts (40 000 thorough) on a real ActorSystem on "
            "virtual time and compares clock, registered set after every operation and every completion with the model inside Coq; Go-side "
            "monitors C05:addr:{ask-registered-after-completion, ask-unregistered-while-pending, registered-after-shutdown} restate the "
            "clause from the harness's own facts. "
            "(3) A spawn that overlaps the termination or restart of its parent. The kernel model executes a spawn as one step; in the code "
            "ActorOf is a sequence of statements that runs off the parent's loop when it is called through ActorSystem.ActorOf (caller's "
            "goroutine, parent = guard) or from a goroutine an actor started. Interleaving machine (SpawnModel): any number of spawners, each "
            "executing Register / entry into the parent's children table / OnLaunch / load of the parent's status / conditional terminate request "
            "in the ORDER the machine is given, against the parent's loop, which may at any moment take up a terminate or restart request "
            "(CAS; sweep over the children CURRENTLY in the table; notices; len(children)==0; final store; terminate overtaking a restart). "
            "Proved for every order accepted by order_ok (registered once, then entered once; the value guarding the request read AFTER the "
            "entry; decided once, sent whenever 'not alive') and every interleaving: a child in the table of a parent that is restarting, "
            "terminating or terminated whose ActorOf has returned HAS BEEN TOLD to stop, by the sweep or by the late check "
            "(C05_late_spawn_every_child_told, _returned_is_decided, _table_sound); hence in every state in which nothing can move any more the "
            "parent is alive, or it has terminated and NO child is registered — a parent is never stuck terminating or restarting and no child "
            "outlives it (C05_late_spawn_nobody_left_behind). For the status read hoisted to the top of ActorOf three refuting schedules are "
            "proved: the parent terminating FOR EVER with an untold running child in its table (Shutdown hangs), the parent terminated and "
            "the child registered for ever, a restart that never completes (C05_late_spawn_hoisted_read_*_refuted). The order of the tree "
            "under test is extracted on every run (go/ast, data-flow tracking of which identifier is the parent's context) and proved by "
            "vm_compute to be an accepted one; every run also FORCES the machine's interleavings on the real ActorSystem — 75 combinations "
            "(parent = guard racing with Shutdown graceful or not / an ordinary actor terminated gracefully or not or restarted, whose helper "
            "goroutine calls ctx.ActorOf; 0-2 other children held inside OnTerminate; window opened before ActorOf / in a configurator / in "
            "Provide / in the dispatcher provider / in the mailbox provider and closed only when the parent has taken the request up and "
            "every mailbox is idle) with monitors C05:late-spawn:{shutdown-hangs, restart-hangs, child-outlives-parent, "
            "registered-after-shutdown}; at thorough volume under fresh seeds this is the failing-input search when the tie breaks.",
    "note": "Partial: the hierarchy and shutdown theorems carry two hypotheses on the scripts (no spawn from an actor's own OnTerminated "
            "handler — the open orphan finding is exactly that case — and no spawn under a system address); the graceful-drain clause is "
            "decided per run (correspondence + monitors; its queue-order half is a theorem). Four open findings (two orphan, one pending ask, one graceful stop of a suspended descendant). Same trusted base as C03. "
            "Temporary addresses: 'no temporary address after Shutdown' is proved only for a "
            "Shutdown that happens after every ask has been answered or has timed out; for asks pending at Shutdown it is refuted and the "
            "monitor reports it (state=pending) as the known finding C05-pending-ask-outlives-shutdown; a registered address in any other "
            "state after Shutdown (completed ask, returned AwaitForward) is a VIOLATION. The two models are tied to the code separately, not to each other (the address model knows actors only as 'can still "
            "act'); re-creation of an asker under the same name (address reuse, C07 finding 5), remote asks and the inside of one future "
            "(C07) are outside the address model. Late spawn: the machine's sweep is one step — the children map itself is "
            "unsynchronised (ActorSystem.ActorOf writes the guard's table on the caller's goroutine while the guard reads it: 'fatal error: "
            "concurrent map ..', DESIGN §7.4, outside the property); the forced interleavings keep the parent outside every map operation, the "
            "unforced stress family of c05spawn (spawns racing with Shutdown in real time) regularly dies of exactly that abort on the "
            "unchanged tree, and now and then the same race corrupts the guard's table silently (observed: len(children) == 1 with no key "
            "left, a sweep that reached 1 of 13 entries) so that Shutdown hangs: both are counted (distribution/aborts, stress_outcome; hits "
            "under the kind prefix observation:unforced-spawn-vs-shutdown:, listed as monitor_hits_of_other_properties), neither is reported "
            "as a C05 violation — that family cannot tell a late-spawn defect from the map race; the forced family is the oracle. The order tie is syntactic (what it rejects conservatively: steps under go / defer / "
            "loops, after a conditional return, guards it cannot evaluate) and is backed by the forced runs; 'a child that was told stops' is "
            "an assumption of the machine (for a graceful request to a suspended child see the open finding above).",
    "technique": "Coq proof (registry/parent/children invariant over every run) on a message-step kernel model + lockstep differential replay "
                 "of the real actor system inside Coq; Coq proof (invariant over every operation sequence) on a virtual-time model of the "
                 "set of temporary addresses + differential runs of the real actor system on synctest virtual time with the registry "
                 "enumerated after every operation; atomic-step interleaving machine of ActorOf against the parent's termination / restart "
                 "(invariant over every schedule for every accepted statement order, three refuting schedules for the hoisted status read) tied "
                 "by a go/ast translator whose extracted order is proved accepted by vm_compute on every run + the machine's interleavings "
                 "forced on the real actor system (monitors; failing-input search)",
}

_orig_go_build = vlib.go_build


def _go_build(ctx, pkg, **kw):
    # c05addr is a test binary: testing/synctest needs *testing.T and go1.26.8
    if pkg == "c05addr":
        kw["test"], kw["go"] = True, "go1.26.8"
    return _orig_go_build(ctx, pkg, **kw)


def addr_sub():
    # addresses of asks still pending when Shutdown returns are reported once that finding is listed as open in known_findings.json
    # (then every run reports it as KNOWN-FINDING with a reproduction count)
    ids = {f.get("id") for f in vlib.known_findings("C05")}
    return {"pkg": "c05addr", "sub": "addr", "go": "go1.26.8", "kinds": ["C05:addr:"],
            "args": ["-pendingshutdown"] if FINDING_PENDING in ids else []}


def spawn_sub():
    return {"pkg": "c05spawn", "sub": "spawn", "coq": False, "kinds": ["C05:late-spawn:"]}


def twin_sub():
    # two linked nodes: a termination notice from the OTHER node naming an address that a living local child also has
    # (harness of C06's two-node sub-check, scripts with a twin child only; monitors only)
    return {"pkg": "c06remote", "sub": "remote", "coq": False, "kinds": ["C05:remote-notice:"], "args": ["-twin", "-n", "250"]}


T3_NAMES = ["C05_late_spawn_source_facts", "C05_late_spawn_of_this_source"]
HOISTED = ["ARead", "AReg", "AEnter", "ALaunch", "ADecide false true"]          # MV.C05.SpawnModel.hoisted_order
SOURCE = ["AReg", "AEnter", "ALaunch", "ARead", "ADecide false true"]           # MV.C05.SpawnModel.source_order


def t3_spawn(ctx):
    """Tie T3: extract the order of the spawner's steps from ActorOf / newActorContext / refBinder of the CURRENT engine/vivid, emit
    SpawnExtracted.v + SpawnInstance.v, compile them (the instance theorems hold iff the order is one accepted by order_ok)."""
    ctx.obligations += len(T3_NAMES)
    if not os.path.exists(os.path.join(vlib.COQ, "C05", "SpawnProofs.vo")):
        ctx.proof_errors.append("T3 (late spawn): coq/C05/SpawnProofs.vo is not built")
        return
    d = os.path.join(ctx.scratch, "t3spawn")
    os.makedirs(d, exist_ok=True)
    try:
        exe = _orig_go_build(ctx, "./translate/c05spawn", name="c05spawn_translate")
    except vlib.CheckError as e:
        ctx.proof_errors.append("T3: cannot build harness/translate/c05spawn: %s" % str(e)[-800:])
        return
    rc, o, e, _ = vlib.sh([exe, "-repo", vlib.REPO, "-out", d], timeout=120)
    if rc != 0:
        ctx.extra["late_spawn_tie"] = "broken"
        ctx.proof_errors.append("T3: ActorOf cannot be read from %s/engine/vivid: %s" % (vlib.REPO, (o + e)[-800:]))
        return
    facts = json.loads(o.strip().splitlines()[-1])
    ctx.extra["t3_late_spawn"] = facts
    out = ""
    for f in ("SpawnExtracted.v", "SpawnInstance.v"):
        rc, o2, e2, _ = vlib.sh(["coqc", "-Q", vlib.COQ, "MV", "-Q", d, "", os.path.join(d, f)], cwd=d, timeout=900)
        if rc != 0:
            ctx.extra["late_spawn_tie"] = "broken"
            order = facts.get("order") or []
            pos = facts.get("positions") or {}
            witness = ""
            if order == HOISTED or (0 <= pos.get("guard_read", -1) < pos.get("enter", -1)):
                witness = (" The value that guards the terminate request is read BEFORE the child is entered into the parent's table"
                           + (" — this is MV.C05.SpawnModel.hoisted_order" if order == HOISTED else "") +
                           ": C05_late_spawn_hoisted_read_parent_waits_for_ever_refuted / _child_outlives_parent_refuted / "
                           "_restart_never_completes_refuted are the refuting schedules (the parent takes up a terminate or restart request between "
                           "the read and the entry: its sweep does not see the child, the spawner holds 'alive' and sends nothing — the parent "
                           "terminates / restarts for ever, or has finished and the child stays registered).")
            elif pos.get("decide", -1) < 0:
                witness = " No terminate request to the new child is decided after the table entry at all."
            stm = ["%s %s [%s]: %s%s" % (x["kind"], x["pos"], x["fn"], x["text"], (" {" + x["why"] + "}") if x.get("why") else "")
                   for x in facts.get("events") or []]
            ctx.proof_errors.append(
                "T3: the steps of ActorOf in the tree under test are executed in the order %s, which is not one the theorems "
                "C05_late_spawn_every_child_told / _nobody_left_behind hold for (order_ok: the child is registered once, then entered once into "
                "the parent's children table; the value of the PARENT's status that guards the terminate request to the new child is read AFTER "
                "that entry; the request is decided exactly once and sent whenever that value is not 'alive'; the source the theorems were "
                "stated for has %s).%s Statements: %s. %s" % (order, SOURCE, witness, stm, (o2 + e2)[-300:].replace("\n", " ")))
            return
        out += o2
    bad = vlib.FORBIDDEN.search(vlib.strip_comments(open(os.path.join(d, "SpawnExtracted.v")).read() + open(os.path.join(d, "SpawnInstance.v")).read()))
    closed = len(re.findall(r"Closed under the global context", out))
    if bad or closed != len(T3_NAMES):
        ctx.extra["late_spawn_tie"] = "broken"
        ctx.proof_errors.append("T3 (late spawn): instance theorems not closed under the global context:\n" + out[-800:])
        return
    ctx.extra["late_spawn_tie"] = "ok"
    for n in T3_NAMES:
        ctx.theorems.append(n)
        ctx.axioms[n] = []
        ctx.discharged += 1


_orig_default_search = vlib.default_search
_orig_standard_check = vlib.standard_check


def spawn_search(ctx, budget_s=None):
    """Failing-input search. When the late-spawn tie is broken the model has the refuting schedules (the parent takes up a request between
    the hoisted status read and the table entry): look for them on the implementation first — the forced interleavings of c05spawn at
    thorough volume (every combination 4x with fresh random bystanders / grandchild / mailbox, 10 s bounds, the unforced stress family) under
    fresh seeds — then fall back to the generic search over every sub-harness."""
    t0 = time.time()
    binary = next((h[0] for h in ctx.harnesses if h[1] == "spawn"), None)
    if ctx.extra.get("late_spawn_tie") == "broken" and binary:
        budget = budget_s or (60 if ctx.tier == "quick" else 300)
        k = tried = 0
        while time.time() - t0 < budget:
            k += 1
            outdir = os.path.join(ctx.scratch, "search_spawn_%d" % k)
            os.makedirs(outdir, exist_ok=True)
            seed = ctx.seed + 104729 * k
            vlib.sh([binary, "-out", outdir, "-seed", str(seed), "-tier", "thorough", "-nocoq"], timeout=max(120, budget - (time.time() - t0) + 180))
            for sp in glob.glob(os.path.join(outdir, "*_summary.json")):
                s = json.load(open(sp))
                tried += s.get("evaluations", 0)
                for v in s.get("violations") or []:
                    if v.get("kind", "").startswith("C05:late-spawn:") and not vlib.match_known(ctx.prop, v):
                        v["search"] = {"seed": seed, "tier": "thorough", "family": "forced late spawn", "cases_tried": tried}
                        return v
            shutil.rmtree(outdir, ignore_errors=True)
        ctx.extra["late_spawn_search"] = {"cases_tried": tried, "wall_s": round(time.time() - t0, 1), "found": False}
    return _orig_default_search(ctx, budget_s)


def _standard_check(ctx, coq_dirs, properties, harnesses, trusted, design_ref, checker_extra="", chk_modules=None, pre=None):
    return _orig_standard_check(
        ctx, coq_dirs, properties, harnesses, trusted, design_ref,
        checker_extra=checker_extra + "; go run harness/translate/c05spawn && coqc SpawnExtracted.v SpawnInstance.v (order of the statements of "
                                      "ActorOf in the tree under test = one the late-spawn theorems hold for); harness/cmd/c05spawn: forced "
                                      "interleavings of a spawn with the parent's termination / restart on the real system (monitors only)",
        chk_modules=chk_modules, pre=t3_spawn)


def check(ctx):
    vlib.go_build = _go_build
    vlib.default_search = spawn_search
    vlib.standard_check = _standard_check
    try:
        return K.check(ctx, "C05", ["C05:", "kernel:"], "DESIGN.md §6 C05; docs/C05-ADDR-NOTES.md",
                       extra_subs=[addr_sub(), spawn_sub(), twin_sub()], extra_trusted=TRUSTED_ADDR + TRUSTED_SPAWN)
    finally:
        vlib.default_search = _orig_default_search
        vlib.standard_check = _orig_standard_check


def replay(ctx, path):
    vlib.go_build = _go_build
    return K.replay(ctx, path, extra_pkgs={"addr": "c05addr", "spawn": "c05spawn", "remote": "c06remote"})
