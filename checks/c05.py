# C05 — termination is hierarchical and complete; shutdown waits for everyone
# Two sub-checks: the kernel model (klock, shared with C03/C04/C06: actors) and the temporary reply addresses (c05addr).
import kernel_common as K
import vlib

FINDING_PENDING = "C05-pending-ask-outlives-shutdown"

TRUSTED_ADDR = [
    "hand-written model coq/C05/AddrModel.v of the life of the temporary addresses (engine/future/future.go New / Initialize / Close / "
    "DeliveryUserMessage / AwaitForward, engine/vivid/actor_context.go FutureAsk / AwaitForward and the termination / restart paths that do "
    "NOT touch futures, engine/vivid/future.go typed ask, engine/vivid/actor_system.go FutureAsk / AwaitForward / Shutdown), a future "
    "abstracted to 'registered from creation to its one completion' (the inside of one future is C07's machine), tied on every run by "
    "differential execution (harness/cmd/c05addr): scripts run on the REAL vivid.ActorSystem inside a testing/synctest bubble (go1.26.8, "
    "virtual time; default dispatcher replaced through the verif hook), the ResourceController is enumerated after EVERY operation (hook "
    "VerifResourceController + reflection over the unexported process table, probing of the predictable addresses as a fall-back) and "
    "the clock, the registered set and every completion (how, when) are compared inside Coq",
    "scripted behaviour of the harness actors (targets answering at once / after a delay by sleeping in the handler or from a goroutine / "
    "never / when told to; asker actors under a supervisor that restarts at once); answer and timeout are never generated for the same "
    "instant (either may win there); the API is not used after Shutdown",
    "synctest's virtual clock and quiescence detection (synctest.Wait after every operation)",
]

MANIFEST = {
    "text": "Two tied models. (1) Kernel model (children bookkeeping incl. stale-notice handling, graceful flag, tryTerminated, parent/watchers "
            "notification, registry, closed flag) replayed in lockstep against the real actor system over random trees with terminations, "
            "restarts, re-spawns, watch-before-spawn, spawns from termination handlers and sends in flight, ending with Shutdown. Proved for "
            "every role table that never spawns from an actor's own OnTerminated handler nor under a system address, and every label sequence "
            "(Kernel/Hierarchy.v, invariant RI/H2..H7 over registry, parent and children tables): C05_hierarchical_partial — in every "
            "reachable state a still-registered actor has a still-registered parent that lists it, so no actor finishes terminating before "
            "any descendant; C05_no_registered_child_of_unregistered_parent_partial. The excluded script behaviour is a real defect, proved "
            "as C05_registry_empty_after_shutdown_refuted (spawn inside the final OnTerminated creates an orphan nobody waits for: open "
            "finding). Under the same two hypotheses (Kernel/Shutdown.v, on the invariant strengthened by 'the registered parent is an "
            "older object' and 'the guard is the only parentless object'): C05_shutdown_returns_after_everyone_partial — in every run, the "
            "very step that sets the closed flag (what Shutdown returns on) leaves the registry EMPTY and every actor object terminated; "
            "the flag is set only by the guard finishing with an empty children table, and every other registered object would have a "
            "well-founded chain of registered ancestors ending in that table. Liveness is refuted for GRACEFUL termination: "
            "C05_graceful_shutdown_completes_refuted (a descendant suspended after a failure never takes the graceful request — a user "
            "message — when its supervisor's decision does not release it: Shutdown(true) hangs; open finding, found by the lockstep "
            "search with seed 301). C05_graceful_request_queued_behind_partial (Kernel/Queue.v: a graceful request is appended behind every user "
            "message already queued and the mailbox is consumed in order). The former witness of a lifecycle-handler panic blocking "
            "Shutdown is repaired in /repo (example C05_panic_in_onterminate_no_longer_blocks_shutdown). Graceful drain, closed flag and "
            "empty registry are checked per run by step-by-step equality with the model and the C05 monitors. "
            "(2) Temporary reply addresses (the futures FutureAsk / the typed ask / AwaitForward register under <actor>/<n>): executable "
            "model of the SET of registered temporary addresses of a whole system in virtual time. Proved for every sequence of asks (target "
            "answers after a delay / never / when told to; timeout or none), AwaitForwards, passages of time, terminations and restarts of "
            "askers with asks pending, and Shutdown anywhere: an address is registered exactly from its creation to its one completion "
            "(C05_addr_registered_iff_not_completed, _registered_is_pending: released in the very instant of the first of answer and "
            "timeout, _completion_is_first_of_answer_and_timeout, _never_registered_again, _ask_registered_from_creation, _ids_identify); an "
            "address with a timer is gone once the clock reaches it, asker dead or alive, system shut down or not (_gone_at_timeout, "
            "_asks_released_by_time); once every ask is answered or past its timeout no ask address is registered, only AwaitForwards can be "
            "(_no_ask_once_settled), with their functions returned nothing at all, in particular when Shutdown returns after that point and "
            "for ever after (_empty_once_settled, _empty_after_settled_shutdown); terminating or restarting the asker and Shutdown close no "
            "future (_stop_and_restart_touch_nothing, _shutdown_is_only_time). Refuted: with the model's flag rel=false (the code as it was "
            "shipped) an AwaitForward address is NEVER released (_awaitforward_released_as_shipped_refuted, "
            "_awaitforward_as_shipped_refuted_for_ever; genuine defect, repaired in /repo by a4a4636, the correspondence runs the model "
            "with rel=true); the literal clause 'after Shutdown no temporary address remains' is false also of the repaired code for asks "
            "still pending when Shutdown is called — they stay until their timeout, for ever without one "
            "(_no_address_after_shutdown_refuted, _stop_releases_pending_asks_refuted, _untimed_ask_refuted_for_ever; open finding "
            "C05-pending-ask-outlives-shutdown). Each run drives ~2 000 scripts (40 000 thorough) on a real ActorSystem on "
            "virtual time and compares clock, registered set after every operation and every completion with the model inside Coq; Go-side "
            "monitors C05:addr:{ask-registered-after-completion, ask-unregistered-while-pending, registered-after-shutdown} restate the "
            "clause from the harness's own facts.",
    "note": "Partial: the hierarchy and shutdown theorems carry two hypotheses on the scripts (no spawn from an actor's own OnTerminated "
            "handler — the open orphan finding is exactly that case — and no spawn under a system address); the graceful-drain clause is "
            "decided per run (correspondence + monitors; its queue-order half is a theorem). Four open findings (two orphan, one pending ask, one graceful stop of a suspended descendant). Same trusted base as C03. "
            "Temporary addresses: 'no temporary address after Shutdown' is proved only for a "
            "Shutdown that happens after every ask has been answered or has timed out; for asks pending at Shutdown it is refuted and the "
            "monitor reports it (state=pending) as the known finding C05-pending-ask-outlives-shutdown; a registered address in any other "
            "state after Shutdown (completed ask, returned AwaitForward) is a VIOLATION. The two models are tied to the code separately, not to each other (the address model knows actors only as 'can still "
            "act'); re-creation of an asker under the same name (address reuse, C07 finding 5), remote asks and the inside of one future "
            "(C07) are outside the address model.",
    "technique": "Coq proof (registry/parent/children invariant over every run) on a message-step kernel model + lockstep differential replay "
                 "of the real actor system inside Coq; Coq proof (invariant over every operation sequence) on a virtual-time model of the "
                 "set of temporary addresses + differential runs of the real actor system on synctest virtual time with the registry "
                 "enumerated after every operation",
}

_orig_go_build = vlib.go_build


def _go_build(ctx, pkg, **kw):
    # c05addr is a test binary: testing/synctest needs *testing.T and go1.26.8
    if pkg == "c05addr":
        kw["test"], kw["go"] = True, "go1.26.8"
    return _orig_go_build(ctx, pkg, **kw)


def addr_sub():
    # addresses of asks still pending when Shutdown returns are reported once that finding is listed as open in known_findings.json
    # (then every run reports it as KNOWN-FINDING with a reproduction count)
    ids = {f.get("id") for f in vlib.known_findings("C05")}
    return {"pkg": "c05addr", "sub": "addr", "go": "go1.26.8", "kinds": ["C05:addr:"],
            "args": ["-pendingshutdown"] if FINDING_PENDING in ids else []}


def check(ctx):
    vlib.go_build = _go_build
    return K.check(ctx, "C05", ["C05:", "kernel:"], "DESIGN.md §6 C05; docs/C05-ADDR-NOTES.md",
                   extra_subs=[addr_sub()], extra_trusted=TRUSTED_ADDR)


def replay(ctx, path):
    vlib.go_build = _go_build
    return K.replay(ctx, path, extra_pkgs={"addr": "c05addr"})
