# C05 — termination is hierarchical and complete; shutdown waits for everyone
import kernel_common as K

MANIFEST = {
    "text": "Kernel model (children bookkeeping incl. stale-notice handling, graceful flag, tryTerminated, parent/watchers notification, "
            "registry, closed flag) replayed in lockstep against the real actor system over random trees with terminations, restarts, "
            "re-spawns, watch-before-spawn, spawns from termination handlers and sends in flight, ending with Shutdown. Proved for every "
            "role table that never spawns from an actor's own OnTerminated handler nor under a system address, and every label sequence "
            "(Kernel/Hierarchy.v, invariant RI/H2..H5 over registry, parent and children tables): C05_hierarchical_partial — in every "
            "reachable state a still-registered actor has a still-registered parent that lists it, so no actor finishes terminating before "
            "any descendant; C05_no_registered_child_of_unregistered_parent_partial. The excluded script behaviour is a real defect, proved "
            "as C05_registry_empty_after_shutdown_refuted (spawn inside the final OnTerminated leaks the child: open finding); "
            "C05_shutdown_completes_refuted (lifecycle-handler panic: open finding). Graceful drain, closed flag and empty registry are "
            "checked per run by step-by-step equality with the model and the C05 monitors.",
    "note": "Partial: the hierarchy theorem carries two hypotheses on the scripts; 'Shutdown returns only after everyone terminated' and the "
            "graceful-drain clause are decided per run (correspondence + monitors), not by theorem. Two open findings. Same trusted base as C03.",
    "technique": "Coq proof (registry/parent/children invariant over every run) on a message-step kernel model + lockstep differential replay "
                 "of the real actor system inside Coq",
}


def check(ctx):
    return K.check(ctx, "C05", ["C05:", "kernel:"], "DESIGN.md §6 C05")


def replay(ctx, path):
    return K.replay(ctx, path)
