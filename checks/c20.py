# C20 — path finding returns valid shortest paths; geometric predicates match geometry
import vlib

TRUSTED = [
    "hand-written models coq/C20/AstarModel.v (astar.Find + container/heap), coq/C20/GeomModel.v (geometry over Q), "
    "coq/C20/NavModel.v (path checker) — tied by differential runs, not translations",
    "Go harnesses + generators + brute-force monitors (harness/cmd/c20astar, c20geom, c20nav, harness/vh), bin/check, lib/vlib.py",
    "float64 results are compared with tolerance 1e-9 against exact rationals on dyadic inputs: rounding is not modelled",
    "Go runtime, container/heap, sort.Slice (stable insertion sort below 12 elements), math.Sqrt",
]
HARNESSES = [
    {"pkg": "c20astar", "sub": "astar"},
    {"pkg": "c20geom", "sub": "geom"},
    {"pkg": "c20nav", "sub": "nav"},
]
MANIFEST = {
    "text": "TODO",
    "note": "TODO",
    "technique": "TODO",
}


def check(ctx):
    return vlib.standard_check(ctx, ["C20"], "C20/Properties.v", HARNESSES, TRUSTED, "DESIGN.md §6 C20",
                               chk_modules=["MV.C20.Properties"])


def replay(ctx, path):
    return vlib.standard_replay(ctx, {"grid": "c20astar", "graph": "c20astar", "geom": "c20geom", "nav": "c20nav"}, path)
