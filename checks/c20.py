# C20 — path finding returns valid shortest paths; geometric predicates match geometry
import vlib

TRUSTED = [
    "hand-written models coq/C20/AstarModel.v (astar.Find + container/heap), coq/C20/GeomModel.v (geometry over Q), "
    "coq/C20/NavModel.v (path checker) — tied by differential runs, not translations",
    "Go harnesses + generators + brute-force monitors (harness/cmd/c20astar, c20geom, c20nav, harness/vh), bin/check, lib/vlib.py",
    "float64 results are compared with tolerance 1e-9 against exact rationals on dyadic inputs: rounding is not modelled",
    "Go runtime, container/heap, sort.Slice (stable insertion sort below 12 elements), math.Sqrt",
]
HARNESSES = [
    {"pkg": "c20astar", "sub": "astar"},
    {"pkg": "c20geom", "sub": "geom"},
    {"pkg": "c20nav", "sub": "nav"},
]
MANIFEST = {
    "text": "Machine-checked (Coq, no axioms): the model of astar.Find - whole-path frontier on a transcription of container/heap, "
            "closed set tested at pop time - returns a valid path, of minimal cost when the heuristic is consistent, returns nothing "
            "exactly when the goal is unreachable and stays within its fuel on finite graphs; the repaired ClosestPoint is on the "
            "segment and closest; on-segment, collinear overlap (geometric reading), circle relations and symmetric centroids match "
            "their definitions over exact rationals; ray casting equals the orientation-test definition on every strictly convex polygon "
            "(any number of vertices, both orientations; boundary points excluded); the nav-mesh path checker is sound. On every run the Go code is compared with the models on all 3x3 grid layouts x all start/goal "
            "pairs (exact path, tie-breaking included), random weighted graphs, ~3000 geometric calls on dyadic/degenerate inputs "
            "(tolerance 1e-9 inside Coq) and ~1000 nav-mesh queries through the verified checker, with brute-force monitors "
            "(Dijkstra/BFS, big-rational geometry, dense sampling).",
    "note": "Models are hand-written (tied by differential runs). Floating-point rounding is not modelled; nav-mesh funnel is only "
            "output-checked (T4). Five small defects of /repo are "
            "modelled as repaired: fixes/C20-*.patch (closest point precedence + zero length, rectangle centroid (x,x), segment-overlap "
            "index, nav-mesh portal angles in radians); on the unpatched tree the check reports VIOLATION with replay files.",
    "technique": "executable Gallina models + invariant proofs (A*, binary heap), nra/lra over Q, verified result checker, differential testing",
}


def check(ctx):
    return vlib.standard_check(ctx, ["C20"], "C20/Properties.v", HARNESSES, TRUSTED, "DESIGN.md §6 C20",
                               chk_modules=["MV.C20.Properties"])


def replay(ctx, path):
    return vlib.standard_replay(ctx, {"grid": "c20astar", "graph": "c20astar", "geom": "c20geom", "nav": "c20nav"}, path)
