# C18 — back-off delays stay within bounds; retry helpers call as often as documented
import vlib

TRUSTED = [
    "hand-written models coq/C18/BackoffModel.v (toolkit/chrono/exponential_backoff.go) and coq/C18/RetryModel.v (toolkit/retry.go), "
    "tied by differential runs (harness/cmd/c18backoff, c18retry) — not a translation",
    "oracle parameters: math.Pow's result is observed on the Go side and handed to the model as a bit pattern; rand.Float64() is "
    "controlled by replacing the global generators of math/rand/v2 and math/rand through go:linkname (link flag -checklinkname=0)",
    "float64->int64 conversion modelled for amd64 (CVTTSD2SQ: -2^63 when out of range), GOAMD64=v1 (no fused multiply-add)",
    "retry helpers run inside a testing/synctest bubble (go1.26.8): virtual time, sleeps observed as exact gaps between calls",
    "Coq kernel evaluation of primitive floats (vm_compute) agrees with IEEE-754 binary64 hardware arithmetic",
    "Go harness + generators + monitors (harness/cmd/c18backoff, harness/cmd/c18retry, harness/vh), bin/check, lib/vlib.py",
]
HARNESSES = [{"pkg": "c18backoff", "sub": "backoff"},
             {"pkg": "c18retry", "sub": "retry", "go": "go1.26.8"}]
MANIFEST = {
    "text": "Proved in Coq about executable models of the repaired back-off (binary64 via primitive floats, math.Pow and rand.Float64 as "
            "oracle values) and of the six retry helpers: -1 is returned exactly when a limit is set and the count exceeds it; otherwise the "
            "delay lies in [0, max] for every intermediate float (finite, Inf, NaN); it is exactly max once base*p + jitter minus a "
            "2^-51 relative tolerance reaches max or p is +Inf (any count), and within that tolerance + 1 ns of base*p + (r-1/2)*rnd*base "
            "while below max (base < 2^53 ns, p >= 1, rnd, r in [0,1]). For every success/failure pattern the helpers invoke the operation at "
            "most the documented number of times, never after a success, an ignored error or a false cond(), sleep only delays in [0, max] "
            "(resp. the given interval / positive rule values) and return the last error, bare or wrapped. Each run replays ~14 000 inputs "
            "(117 000 thorough) through the Go code and the models inside Coq and compares int64 results, call counts, sleeps and results "
            "exactly; Go-side monitors restate the property with 256-bit floats.",
    "note": "needs fixes/C18-backoff-overflow.patch: on the unpatched tree StandardExponentialBackoff(36,-1,200ms,3s) = -2^63 ns and the check "
            "prints VIOLATION. Trusted: hand-written models tied by differential runs with injected random draws (go:linkname), math.Pow as an "
            "oracle (monitor tolerance 1e-12 + count*2^-51), amd64 float->int64 semantics without FMA, FloatAxioms + Flocq + classical reals "
            "for the band/saturation theorems only (bounds and all retry theorems are axiom-free), synctest virtual time for the sleeps.",
    "technique": "Coq primitive floats + Flocq error analysis; list-recursive models with loop invariants; differential harness (T1) with "
                 "oracle injection; synctest virtual time; big-float monitors",
}

_orig_go_build = vlib.go_build


def _go_build(ctx, pkg, **kw):
    # both harnesses replace the global random generators via go:linkname; c18retry is a test binary (synctest needs *testing.T)
    kw["extra"] = ["-ldflags=-checklinkname=0"]
    if pkg == "c18retry":
        kw["test"], kw["go"] = True, "go1.26.8"
    return _orig_go_build(ctx, pkg, **kw)


def check(ctx):
    vlib.go_build = _go_build
    return vlib.standard_check(ctx, ["C18"], "C18/Properties.v", HARNESSES, TRUSTED, "DESIGN.md §6 C18",
                               chk_modules=["MV.C18.Properties"])


def replay(ctx, path):
    vlib.go_build = _go_build
    return vlib.standard_replay(ctx, {"backoff": "c18backoff", "retry": "c18retry"}, path)
