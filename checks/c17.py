# C17 — collection helpers obey their defining laws and leave inputs alone
import vlib

TRUSTED = [
    "hand-written models coq/C17/{CollModel,TopoModel,ChooseModel}.v of toolkit/collection/*.go, tied by differential runs "
    "(harness/cmd/c17coll) — not a translation; callbacks are the families cmpk/predk/keyk/contk mirrored by hand in Go",
    "package sort (sort.Slice / sort.SliceStable) and Go map iteration are modelled by their specification (a stable sort; any order)",
    "Go harness + generators + brute-force monitors (harness/cmd/c17coll, harness/vh), bin/check, lib/vlib.py",
    "capacity and aliasing of slices are judged by the Go monitors only (address ranges via unsafe.SliceData; Go's non-moving heap); "
    "the Coq model works on values",
]
HARNESSES = [{"pkg": "c17coll", "sub": "coll"}]
MANIFEST = {
    "text": "57 Coq theorems (no axioms) about executable models that follow the algorithms of the toolkit/collection helpers: "
            "de-duplication keeps exactly the first occurrence of every class in order, for every equivalence callback, and the in-place "
            "variants agree with the copying ones; sort = Sorted, Permutation and stable; drop/filter/merge/clone/batches/reverse return exactly the "
            "expected elements (reverse involutive, concat of batches = input); Equal* reflexive, symmetric and true exactly on equal "
            "containers; min/max/find return the first extremal/matching member; ordered map loops visit a sorted permutation of the map's "
            "own entries up to the first false; topological sort (any map order) puts every item before its dependencies and errors exactly "
            "on cycles; random no-repeat choices and shuffles pass verified checkers. Every run compares 125 real exported functions with the "
            "models on exhaustive small scopes plus random inputs and re-reads every argument after every call; every call with a slice "
            "argument is also made with slices that are prefixes of longer arrays (sentinels behind len): the whole backing arrays "
            "must be unchanged and slice results must not share memory with an argument unless the helper is in-place / documented "
            "to hand back (part of) its argument.",
    "note": "models are hand-written (tied by differential runs, not a translation); sort.Slice and map iteration order are modelled by "
            "their specification; 7 small repairs in fixes/C17-*.patch are assumed applied (on the unrepaired tree the check reports each "
            "defect as a VIOLATION with a replay file)",
    "technique": "Coq proofs over list/association-list models + lockstep differential harness + brute-force monitors + verified result checkers",
}


def check(ctx):
    return vlib.standard_check(ctx, ["C17"], "C17/Properties.v", HARNESSES, TRUSTED, "DESIGN.md §6 C17",
                               chk_modules=["MV.C17.Properties"])


def replay(ctx, path):
    return vlib.standard_replay(ctx, {"coll": "c17coll"}, path)
