# C16 — leaderboard, slices, ordered and synchronized maps behave like their models
import json
import os
import re
import time

import vlib

TRUSTED = [
    "hand-written models coq/C16/{Rank,Bitset,Paged,Maps,Prio}Model.v of toolkit/ranking/binary_search.go, toolkit/dynamic_bit_set.go, "
    "toolkit/collection/listings/*.go, toolkit/collection/mappings/*.go, tied by differential runs (harness/cmd/c16*) — not translations",
    "translate/c16locks (go/ast, syntactic): lock skeletons of SyncMap/OrderSync/SyncSlice/SyncPrioritySlice/MutexBucket(Item) regenerated from the "
    "tree under test on every run; owner = root identifier, guarded field = written field of a struct owning a mutex; loops unrolled 0/1 times",
    "Go harnesses + generators + brute-force monitors (harness/cmd/c16*, harness/vh), bin/check, lib/vlib.py",
    "Go runtime: slices, maps, sort.Slice, sync.RWMutex semantics (the lock machine of coq/C16/LockModel.v is a model of RWMutex without writer preference)",
]
HARNESSES = [
    {"pkg": "c16rank", "sub": "rank"},
    {"pkg": "c16bitset", "sub": "bitset"},
    {"pkg": "c16paged", "sub": "paged"},
    {"pkg": "c16maps", "sub": "maps"},      # writes four sub-harnesses: order, bucket, syncmap, syncslice
    {"pkg": "c16prio", "sub": "prio"},
]
REPLAY_PKG = {"rank": "c16rank", "bitset": "c16bitset", "paged": "c16paged", "order": "c16maps", "bucket": "c16maps",
              "syncmap": "c16maps", "syncslice": "c16maps", "prio": "c16prio"}
MANIFEST = {
    "text": "Machine-checked (Coq) theorems over executable models that follow the Go algorithms: for every operation history the leaderboard "
            "keeps each competitor once, ordered by its Cmp, within its limit, map and list in agreement, GetRank/GetCompetitor inverse, scores = "
            "last submitted, and both binary searches (tie scans included) end within fuel length+1; the priority slice stays ordered and keeps "
            "every appended element; the paged slice (every page size) refines a plain slice, Order refines its entry list with distinct keys, "
            "bucket maps refine one map, the bit set refines a finite set with Equal/In/NotIn/Key independent of trailing zero words; absent-key "
            "operations are harmless. Concurrency: lock skeletons are extracted from the current sources on every run and checked against a lock "
            "discipline whose consequences (writer exclusion, no race on guarded fields, no deadlock) are proved for any number of threads. "
            "Each run replays ~8 000 generated histories on the real code and inside Coq and restates the property with brute-force monitors.",
    "note": "Models are hand-written and tied by differential runs; scores/keys/values are int64; page size >= 1; linearizability proper is not "
            "proved (atomic blocks + race freedom + deadlock freedom are). Six defects found by the check and repaired by the four fixes/C16-*.patch "
            "(the models follow the repaired code), one more outside the modelled domain (NaN scores); see docs/C16-NOTES.md.",
    "technique": "Coq refinement/invariant proofs + lockstep differential testing + go/ast lock-skeleton extraction",
}

LOCK_TYPES = ["SyncMap", "OrderSync", "SyncSlice", "SyncPrioritySlice", "MutexBucket", "MutexBucketItem"]


def run_lock_translator(ctx):
    """T3: regenerate the lock skeletons from the tree under test and compile them against coq/C16/LockModel.v.
    Returns (ok, offenders, methods, log, skeletons)."""
    d = os.path.join(ctx.scratch, "locks")
    os.makedirs(d, exist_ok=True)
    out = os.path.join(d, "C16Extracted.v")
    rc, o, e, _ = vlib.sh(["go", "run", ".", "-repo", vlib.REPO, "-o", out], cwd=os.path.join(vlib.VERIF, "translate", "c16locks"),
                          env=vlib.GOENV, timeout=600)
    if rc != 0:
        return False, [], 0, "translate/c16locks failed:\n" + (o + e)[-2000:], {}
    rc, o, e, _ = vlib.sh(["coqc", "-Q", vlib.COQ, "MV", out], cwd=d, timeout=900)
    m = re.search(r"offenders\s*=(.*?):\s*list", o, re.S)
    offenders = re.findall(r'\("(\w+)",\s*"(\w+)"\)', m.group(1)) if m else []
    src = open(out).read()
    methods = len(re.findall(r"mtype :=", src))
    skel = {}
    try:
        for it in json.load(open(out[:-2] + ".json")):
            skel[(it["type"], it["method"])] = it["skeleton"]
    except Exception:
        pass
    missing = [t for t in LOCK_TYPES if 'mtype := "%s"' % t not in src]
    ok = rc == 0 and "Closed under the global context" in o and not offenders and not missing
    log = (o + e)[-2500:]
    if missing:
        log = "no method extracted for %s\n" % missing + log
    return ok, offenders, methods, log, skel


def locks_pre(ctx):
    t0 = time.time()
    ok, offenders, methods, log, skel = run_lock_translator(ctx)
    ctx.obligations += 2
    names = ["extracted_well_locked", "extracted_threads_safe"]
    ctx.extra["locks"] = {"methods": methods, "offenders": ["%s.%s" % x for x in offenders], "wall_s": round(time.time() - t0, 1)}
    if ok:
        ctx.discharged += 2
        ctx.theorems += names
        for n in names:
            ctx.axioms[n] = []
        return
    for (typ, meth) in offenders:
        ctx.viol.append({
            "kind": "locks:%s.%s:not-well-locked" % (typ, meth),
            "detail": "lock skeleton extracted from the current source fails the discipline (guarded access outside its critical section, "
                      "unlock of a lock not held, or lock taken while one is held)",
            "sub": "locks", "case_id": -1,
            "case": {"type": typ, "method": meth, "skeleton": skel.get((typ, meth))},
            "sig": {"type": typ, "method": meth}})
    ctx.proof_errors.append("generated Lemma extracted_well_locked does not hold for the current sources (offenders: %s)\n%s" %
                            (", ".join("%s.%s" % x for x in offenders) or "none parsed", log[-1200:]))


def check(ctx):
    return vlib.standard_check(ctx, ["C16"], "C16/Properties.v", HARNESSES, TRUSTED, "DESIGN.md §6 C16",
                               checker_extra="; go run translate/c16locks && coqc <generated lock skeletons>",
                               chk_modules=["MV.C16.Properties"], pre=locks_pre)


def replay(ctx, path):
    d = json.load(open(path))
    if d.get("sub") == "locks":
        ok, offenders, methods, log, skel = run_lock_translator(ctx)
        c = d.get("case") or {}
        still = (c.get("type"), c.get("method")) in offenders
        print(json.dumps({"method": "%s.%s" % (c.get("type"), c.get("method")), "still_not_well_locked": still,
                          "skeleton_now": skel.get((c.get("type"), c.get("method"))), "offenders_now": ["%s.%s" % x for x in offenders]}))
        return 1 if still else 0
    return vlib.standard_replay(ctx, REPLAY_PKG, path)
