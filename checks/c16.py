# C16 — leaderboard, slices, ordered and synchronized maps behave like their models
import glob
import json
import os
import re
import time

import vlib

TRUSTED = [
    "hand-written models coq/C16/{Rank,Bitset,Paged,Maps,Prio}Model.v of toolkit/ranking/binary_search.go, toolkit/dynamic_bit_set.go, "
    "toolkit/collection/listings/*.go, toolkit/collection/mappings/*.go, tied by differential runs (harness/cmd/c16*) — not translations",
    "translate/c16locks (go/ast, syntactic): lock skeletons of SyncMap/OrderSync/SyncSlice/SyncPrioritySlice/MutexBucket(Item) regenerated from the "
    "tree under test on every run; owner = root identifier, guarded field = written field of a struct owning a mutex; loops unrolled 0/1 times "
    "(0/1/2 when the body locks)",
    "coq/C16/AtomicModel.v multi_step: the shapes of the four methods of the current sources that are several critical sections, pinned exactly: "
    "MutexBucketItem.GetOrSet (double-checked locking, proved to linearize) and SyncPrioritySlice.Appends (documented sequence of atomic Appends, proved) "
    "are legitimate multi-step methods; MutexBucket.Len / Clear (one section per bucket) are NOT exempted — their non-atomicity is the open finding "
    "C16-mutexbucket-len-not-atomic, reproduced by the regular concurrent rounds; docs/C16-NOTES.md",
    "harness/cmd/c16conc: real goroutines, logical-clock stamps, plain slice/map sequential specifications, porcupine v1.3.0 (linearizability checker) "
    "cross-checked by an exhaustive search; sound for hits, says nothing when silent",
    "Go harnesses + generators + brute-force monitors (harness/cmd/c16*, harness/vh), bin/check, lib/vlib.py",
    "Go runtime: slices, maps, sort.Slice, sync.RWMutex semantics (the lock machine of coq/C16/LockModel.v is a model of RWMutex without writer preference)",
]
HARNESSES = [
    {"pkg": "c16rank", "sub": "rank"},
    {"pkg": "c16bitset", "sub": "bitset"},
    {"pkg": "c16paged", "sub": "paged"},
    {"pkg": "c16maps", "sub": "maps"},      # writes four sub-harnesses: order, bucket, syncmap, syncslice
    {"pkg": "c16prio", "sub": "prio"},
    {"pkg": "c16conc", "sub": "conc", "coq": False},   # concurrent rounds on the real code (linearizability / serial equivalence); no Coq model
]
REPLAY_PKG = {"rank": "c16rank", "bitset": "c16bitset", "paged": "c16paged", "order": "c16maps", "bucket": "c16maps",
              "syncmap": "c16maps", "syncslice": "c16maps", "prio": "c16prio", "conc": "c16conc"}
MANIFEST = {
    "text": "Machine-checked (Coq) theorems over executable models that follow the Go algorithms: for every operation history the leaderboard "
            "keeps each competitor once, ordered by its Cmp, within its limit, map and list in agreement, GetRank/GetCompetitor inverse, scores = "
            "last submitted, and both binary searches (tie scans included) end within fuel length+1; the priority slice stays ordered and keeps "
            "every appended element; the paged slice (every page size) refines a plain slice, Order refines its entry list with distinct keys, "
            "bucket maps refine one map, the bit set refines a finite set with Equal/In/NotIn/Key independent of trailing zero words; absent-key "
            "operations are harmless. Concurrency: lock skeletons are extracted from the current sources on every run and checked against a lock "
            "discipline whose consequences (writer exclusion, no race on guarded fields, no deadlock) are proved for any number of threads, and against "
            "the obligation that every method the models treat as one atomic step is exactly one critical section holding all its accesses to guarded "
            "fields (GetOrSet and Appends are declared multi-step with exact shapes and their own theorems; the bucket-by-bucket MutexBucket.Len/Clear are "
            "an open finding, not an exemption). Concurrent rounds on the real code are checked for linearizability against plain slice/map "
            "specifications; MutexBucket also with Len/Clear mixed in, which normally reproduces that finding (a non-linearizable MutexBucket history "
            "counts as the finding only if it becomes linearizable once the Len calls are dropped and Clear is taken bucket by bucket; anything else is "
            "a violation). Each run replays ~4 500 generated histories on the real code and inside Coq, ~11 600 concurrent rounds on the real code, and "
            "restates the property with brute-force monitors.",
    "note": "Models are hand-written and tied by differential runs; scores/keys/values are int64; page size >= 1; linearizability proper is not "
            "proved (atomic blocks + race freedom + deadlock freedom + one-critical-section-per-atomic-step are). Open finding C16-mutexbucket-len-not-atomic: MutexBucket.Len/Clear "
            "work bucket by bucket and are not linearizable (reproduced by the regular run, KNOWN-FINDING line); SyncPrioritySlice.Appends is a sequence of "
            "atomic Appends by design (the property's statement about it holds per step). Six defects found by the check and repaired by the four fixes/C16-*.patch "
            "(the models follow the repaired code), one more outside the modelled domain (NaN scores); see docs/C16-NOTES.md.",
    "technique": "Coq refinement/invariant proofs + lockstep differential testing + go/ast lock-skeleton extraction + linearizability stress (porcupine)",
}

LOCK_TYPES = ["SyncMap", "OrderSync", "SyncSlice", "SyncPrioritySlice", "MutexBucket", "MutexBucketItem"]


def _pairs(o, name):
    m = re.search(name + r"\s*=(.*?):\s*list", o, re.S)
    return re.findall(r'\("(\w+)",\s*"(\w+)"\)', m.group(1)) if m else []


def run_lock_translator(ctx):
    """T3: regenerate the lock skeletons from the tree under test and compile them against coq/C16/LockModel.v and
    AtomicModel.v. Returns a dict: ok, offenders (not well locked), nonatomic (not one critical section and not the declared
    multi-step shape), multistep, methods, closed, log, skel {(type, method): {skeleton, paths}}."""
    d = os.path.join(ctx.scratch, "locks")
    os.makedirs(d, exist_ok=True)
    out = os.path.join(d, "C16Extracted.v")
    r = {"ok": False, "offenders": [], "nonatomic": [], "multistep": [], "methods": 0, "closed": 0, "log": "", "skel": {}}
    rc, o, e, _ = vlib.sh(["go", "run", ".", "-repo", vlib.REPO, "-o", out], cwd=os.path.join(vlib.VERIF, "translate", "c16locks"),
                          env=vlib.GOENV, timeout=600)
    if rc != 0:
        r["log"] = "translate/c16locks failed:\n" + (o + e)[-2000:]
        return r
    rc, o, e, _ = vlib.sh(["coqc", "-Q", vlib.COQ, "MV", out], cwd=d, timeout=900)
    r["offenders"], r["nonatomic"], r["multistep"] = _pairs(o, "offenders"), _pairs(o, "nonatomic"), _pairs(o, "multistep")
    src = open(out).read()
    r["methods"] = len(re.findall(r"mtype :=", src))
    try:
        for it in json.load(open(out[:-2] + ".json")):
            r["skel"][(it["type"], it["method"])] = {"skeleton": it["skeleton"], "paths": it.get("paths")}
    except Exception:
        pass
    missing = [t for t in LOCK_TYPES if 'mtype := "%s"' % t not in src]
    r["closed"] = len(re.findall(r"Closed under the global context", o))
    r["ok"] = rc == 0 and r["closed"] == 2 and not r["offenders"] and not r["nonatomic"] and not missing
    r["log"] = (o + e)[-2500:]
    if missing:
        r["log"] = "no method extracted for %s\n" % missing + r["log"]
    return r


def _sections_text(paths):
    """the critical sections of the worst path of a method, for the broken-obligation text"""
    def bad(p):
        return len(p) + 10 * sum(1 for x in p if x.get("kind") == "outside")
    worst = max(paths or [[]], key=bad)
    out = []
    for x in worst:
        if x.get("kind") == "section":
            out.append("%s-section on %s reads=%s writes=%s" % ({"R": "RLock", "W": "Lock"}.get(x.get("mode"), "?"), x.get("owner"),
                                                             x.get("reads") or [], x.get("writes") or []))
        elif x.get("kind") == "call":
            out.append("call %s.%s" % (x.get("owner"), x.get("callee")))
        else:
            out.append("OUTSIDE any section: %s %s reads=%s writes=%s" % (x.get("owner"), x.get("callee") or "", x.get("reads") or [], x.get("writes") or []))
    return "; then ".join(out) or "(nothing)"


NAMES = ["extracted_well_locked", "extracted_threads_safe", "extracted_atomic_steps", "extracted_one_section"]


def locks_pre(ctx):
    t0 = time.time()
    r = run_lock_translator(ctx)
    ctx.obligations += len(NAMES)
    ctx.c16_nonatomic = [(t, m) for (t, m) in r["nonatomic"]]
    ctx.extra["locks"] = {"methods": r["methods"], "offenders": ["%s.%s" % x for x in r["offenders"]],
                          "not_one_critical_section": ["%s.%s" % x for x in r["nonatomic"]],
                          "declared_multi_step_in_use": ["%s.%s" % x for x in r["multistep"] if x not in r["nonatomic"]],
                          "wall_s": round(time.time() - t0, 1)}
    good = NAMES if r["ok"] else (NAMES[:2] if r["closed"] >= 1 and not r["offenders"] else [])
    ctx.discharged += len(good)
    ctx.theorems += good
    for n in good:
        ctx.axioms[n] = []
    if r["ok"]:
        return
    for (typ, meth) in r["offenders"]:
        ctx.viol.append({
            "kind": "locks:%s.%s:not-well-locked" % (typ, meth),
            "detail": "lock skeleton extracted from the current source fails the discipline (guarded access outside its critical section, "
                      "unlock of a lock not held, or lock taken while one is held)",
            "sub": "locks", "case_id": -1,
            "case": dict(r["skel"].get((typ, meth)) or {}, type=typ, method=meth),
            "sig": {"type": typ, "method": meth}})
    if r["offenders"]:
        ctx.proof_errors.append("generated Lemma extracted_well_locked does not hold for the current sources (offenders: %s)\n%s" %
                                (", ".join("%s.%s" % x for x in r["offenders"]), r["log"][-1200:]))
    # a method that the models treat as ONE atomic step but whose current source is not one critical section: a broken
    # obligation, not by itself a failing input — the failing-input search (c16_search) tries to exhibit a concurrent history
    for (typ, meth) in r["nonatomic"]:
        sk = r["skel"].get((typ, meth)) or {}
        ctx.proof_errors.append(
            "T3 obligation extracted_atomic_steps (one atomic step of the model = one critical section) is broken by %s.%s: the sequential "
            "models (coq/C16/MapsModel.v, PrioModel.v) execute %s as ONE atomic step, but a path of the current source runs [%s]; it is not "
            "among the declared multi-step methods (coq/C16/AtomicModel.v multi_step) or no longer has its declared shape. Between two "
            "sections other goroutines can change the guarded state, so what the first section read may be stale in the second "
            "(check-then-act).\nskeleton: %s" % (typ, meth, meth, _sections_text(sk.get("paths")), (sk.get("skeleton") or "")[:1500]))
    if not r["offenders"] and not r["nonatomic"]:
        ctx.proof_errors.append("the generated lock-skeleton file does not check (%d of 2 theorems closed under the global context)\n%s" %
                                (r["closed"], r["log"][-1500:]))


def c16_search(ctx):
    """Failing-input search. First, for every method that broke the one-critical-section obligation: concurrent rounds on the real
    code biased to that method (harness/cmd/c16conc -focus), judged by the linearizability / serial-equivalence monitors; a hit is a
    concrete failing history. Then the framework's default search (all sub-harnesses at thorough volume, fresh seeds)."""
    t0 = time.time()
    todo = list(getattr(ctx, "c16_nonatomic", []))
    conc = [h for h in ctx.harnesses if h[1] == "conc"]
    tried = 0
    if todo and conc:
        binary = conc[0][0]
        per = max(8.0, (30.0 if ctx.tier == "quick" else 240.0) / len(todo))
        for k, (typ, meth) in enumerate(todo):
            outdir = os.path.join(ctx.scratch, "search_conc_%d" % k)
            os.makedirs(outdir, exist_ok=True)
            seed = ctx.seed + 104729 * (k + 1)
            vlib.sh([binary, "-out", outdir, "-seed", str(seed), "-tier", ctx.tier, "-nocoq", "-focus", "%s.%s" % (typ, meth), "-budget", str(per)],
                    timeout=per + 90)
            for sp in glob.glob(os.path.join(outdir, "*_summary.json")):
                s = json.load(open(sp))
                tried += s.get("evaluations", 0)
                for v in s.get("violations") or []:
                    if not vlib.match_known(ctx.prop, v):
                        v["search"] = {"seed": seed, "focus": "%s.%s" % (typ, meth), "rounds_tried": tried, "wall_s": round(time.time() - t0, 1),
                                       "broken_obligation": "extracted_atomic_steps: %s.%s is not one critical section" % (typ, meth)}
                        return v
        ctx.extra["search_conc"] = {"focus": ["%s.%s" % x for x in todo], "rounds_tried": tried, "wall_s": round(time.time() - t0, 1), "found": False}
    return vlib.default_search(ctx, budget_s=45 if (todo and ctx.tier == "quick") else None)


def check(ctx):
    ctx.trusted += TRUSTED
    bad = vlib.forbidden_scan(["Lib", "C16"])
    if bad:
        ctx.proof_errors.append("forbidden constructs: %s" % bad[:5])
    if vlib.coq_make(ctx, ["Lib", "C16"]):
        vlib.coq_properties(ctx, "C16/Properties.v")
    locks_pre(ctx)
    built = {}
    for h in HARNESSES:
        if h["pkg"] not in built:
            built[h["pkg"]] = vlib.go_build(ctx, h["pkg"])
        vlib.run_harness(ctx, built[h["pkg"]], h["sub"], coq=h.get("coq", True))
    if ctx.tier == "thorough":
        vlib.coqchk(ctx, ["MV.C16.Properties"])
    cmd = "make -C coq (full .vo build) && coqc C16/Properties.v (Print Assumptions per theorem); go build harness/cmd/{%s} against the tree under " \
          "test; coqc <generated cases shards> (vm_compute); go run translate/c16locks && coqc <generated lock skeletons> (well_locked, " \
          "step_ok); c16conc: concurrent rounds judged by porcupine + exhaustive search" % ",".join(sorted({h["pkg"] for h in HARNESSES}))
    return vlib.finish(ctx, cmd, "DESIGN.md §6 C16", search=c16_search)


def replay(ctx, path):
    d = json.load(open(path))
    if d.get("sub") == "locks" or "broken_obligations" in d:
        r = run_lock_translator(ctx)
        c = d.get("case") or {}
        now = r["offenders"] + r["nonatomic"]
        if d.get("sub") == "locks":
            still = (c.get("type"), c.get("method")) in r["offenders"]
            print(json.dumps({"method": "%s.%s" % (c.get("type"), c.get("method")), "still_not_well_locked": still,
                              "skeleton_now": (r["skel"].get((c.get("type"), c.get("method"))) or {}).get("skeleton"),
                              "offenders_now": ["%s.%s" % x for x in r["offenders"]]}))
            return 1 if still else 0
        print(json.dumps({"broken_obligations_recorded": [b[:300] for b in d.get("broken_obligations") or []],
                          "not_well_locked_now": ["%s.%s" % x for x in r["offenders"]],
                          "not_one_critical_section_now": ["%s.%s" % x for x in r["nonatomic"]],
                          "lock_skeleton_file_checks_now": r["ok"],
                          "sections_now": {"%s.%s" % x: (r["skel"].get(x) or {}).get("paths") for x in r["nonatomic"]}}))
        return 1 if (now or not r["ok"]) else 0
    return vlib.standard_replay(ctx, REPLAY_PKG, path)
