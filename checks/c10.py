# C10 — a publication reaches every current subscriber of the topic exactly once
import vlib

TRUSTED = [
    "hand-written model coq/C10/SubModel.v of engine/vivid/subscription_actor.go (table topic -> id -> subscriber, guid, the three "
    "request handlers), actor_context.go (Subscribe = blocking ask, UnSubscribe = tell + local delete, Publish = ask with the publisher as "
    "sender, release of ctx.subscriptions in tryRestarted/tryTerminated), actor_system.go (ActorSystem.Publish: the guard publishes) and "
    "abyss.go (dead letters published on AbyssTopic), tied by differential runs on a real ActorSystem (harness/cmd/c10sub) — not a translation",
    "the models have the REPAIRED behaviour of fixes/C10-release-after-last-handler.patch, fixes/C10-abyss-unwrap.patch and "
    "fixes/C10-unsubscribe-foreign-node-id.patch; the tree as shipped is refuted in Coq (C10_release_before_last_handler_refuted) and on the "
    "implementation (VIOLATION with replay files)",
    "hand-written SEQUENTIAL two-node model coq/C10/RemoteModel.v (two tables, ids per node, broadcast of a publication to the other node), "
    "tied by differential runs on two real systems linked through sharing on loopback (sub-harness remote: fence message over the link + "
    "quiescence of both nodes after every step); link up and FIFO assumed (C11)",
    "mailbox assumptions (property C02, proved elsewhere): the subscription actor's mailbox and every subscriber's mailbox are FIFO and hand "
    "every message to the handler exactly once, one at a time; the model records the append order of deliveries",
    "the fan-out loop ranges over a Go map (random order): written as map/filter in insertion order; unobservable per subscriber",
    "sequential tie: the harness drives one API call at a time to quiescence; the theorems quantify over ALL interleavings of calls and "
    "processing steps of the machine, the implementation is compared with the model on sequential histories only",
    "Go harness + generators + monitors (harness/cmd/c10sub, harness/vh), the verif hooks VerifSetDefaultDispatcher / VerifResourceController, "
    "bin/check, lib/vlib.py",
]
FINDING = "C10-subscribe-timeout-leak"


def harnesses():
    # the witness of the open finding needs a 1.3 s stall of the subscription actor: it is run once the finding is listed in
    # known_findings.json (then every run reports it as KNOWN-FINDING with a reproduction count)
    on = any(f.get("id") == FINDING for f in vlib.known_findings("C10"))
    return [{"pkg": "c10sub", "sub": "sub", "args": ["-timeoutleak"] if on else []},
            {"pkg": "c10sub", "sub": "remote", "args": ["-remote"]}]


HARNESSES = harnesses()
MANIFEST = {
    "text": "Two-node model incl. publications the sharing codec cannot encode (QPubL): they reach exactly the subscriptions of the topic on the publisher's node (C10_remote_local_only_publication_partial). Coq theorems about an executable machine of vivid publish/subscribe whose histories are ALL interleavings of Subscribe / "
            "UnSubscribe / Publish / direct sends / restart / terminate / spawn calls by any actors with the processing steps of the single "
            "subscription actor (explicit FIFO request queue; Subscribe blocks its caller until answered): C10_exactly_once (handling a "
            "publish request appends exactly one user message per subscription of the topic present in the table, sender = publisher, "
            "nothing for anybody else, table unchanged; ids in the table are pairwise distinct, so an actor with two subscriptions gets "
            "two messages), C10_sender, C10_established_before (a subscription returned by Subscribe with no cancel sent when Publish was "
            "CALLED is in the table when the request is handled), C10_cancelled_after (an id whose UnSubscribe was called, or whose owner's "
            "restart/termination release was performed, before the Publish call is absent when the request is handled), "
            "C10_publisher_order (deliveries are appended in the order of the Publish calls, system-wide and per publisher/subscriber), "
            "C10_no_listener_harmless (state unchanged but for the consumed request), C10_ids_unique (ids are 1,2,3,... never reused), "
            "C10_released_actor_has_no_subscription (after the queue is drained a restarted or terminated actor owns nothing in the table), "
            "C10_subscribe_pending (a blocked subscriber's request is queued: the answer is never lost), "
            "C10_sequential_runs_are_histories, plus the definitions of the ghost stamps (C10_stamps, C10_live_meaning, "
            "C10_subscribe_answer, C10_cancel_calls); for two linked systems only the sequential model: C10_remote_exactly_once_partial, "
            "C10_remote_release_partial (ids unique per node, every table entry owned by a live actor of its node, a publication delivered once "
            "per subscription on either node with the original publisher as sender). On every run the model is executed against a REAL ActorSystem (fresh per case, 4 "
            "scripted actors, topics alpha/beta/AbyssTopic/nobody): histories of spawn/subscribe/unsubscribe(own and foreign)/publish(actor "
            "and system, bursts)/tell to dead actors (dead letters on AbyssTopic)/restart by panic/failing calls (Subscribe(\"\"), "
            "UnSubscribe(nil))/terminate, ids and every handled message (payload, sender) compared exactly; Go monitors for "
            "lost/duplicated/after-cancel/non-subscriber/wrong-sender/reordered deliveries, id collisions, crashes and non-quiescence; the same "
            "on two REAL systems linked through sharing on 127.0.0.1 (actors on both nodes, protobuf payloads, publications from both nodes).",
    "note": "Theorems are about the code as repaired by fixes/C10-release-after-last-handler.patch (subscriptions were released BEFORE the "
            "last lifecycle handler: a Subscribe inside OnTerminated survived the actor, was delivered to the next actor under that address, "
            "and on AbyssTopic made every dead letter produce another one for ever) and fixes/C10-abyss-unwrap.patch (the dead-letter filter "
            "looked at the envelope, so it never matched, and the event carried the envelope instead of the message) and "
            "fixes/C10-unsubscribe-foreign-node-id.patch (ids are unique per node only: an UnSubscribe with the other node's subscription cancelled "
            "the local subscription with the same number and forgot the caller's own entry); on the unrepaired tree the check prints VIOLATION "
            "with replay files. Open finding (not repaired, not in the model): a Subscribe whose 1 s ask times "
            "out panics in the caller while the request is still registered later (checks/c10_findings.json). Remote clause PARTIAL: sequential "
            "two-node model and runs with the link up only — no interleaving machine over two queues and the link, no link failure/reopen, no "
            "contact providers, no dead letters across nodes. Implementation runs are sequential (interleavings are covered by the theorems over "
            "the machine only). Trusted: the hand-written model, FIFO/exactly-once mailboxes (C02), the harness.",
    "technique": "Coq proof (invariants over an interleaving machine with ghost stamps, induction over histories) + differential runs on the "
                 "real ActorSystem + Go-side monitors",
}


def check(ctx):
    return vlib.standard_check(ctx, ["C10"], "C10/Properties.v", harnesses(), TRUSTED, "DESIGN.md §6 C10",
                               chk_modules=["MV.C10.Properties"])


def replay(ctx, path):
    return vlib.standard_replay(ctx, {"sub": "c10sub", "remote": "c10sub"}, path)
