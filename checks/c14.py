# C14 — ECS entities are generation-safe; queries return exactly the living matches
import vlib

TRUSTED = [
    "hand-written model coq/C14/EcsModel.v of engine/ecs/{world,entities,entity,archetype,archetypes,query,result}.go, "
    "storage/column/storage.go and the used parts of toolkit/dynamic_bit_set.go, tied by differential runs "
    "(harness/cmd/c14ecs) — not a translation; PagedSlice is a flat list in the model",
    "abstract specification coq/C14/EcsSpec.v (living / comps / data bookkeeping, filter semantics sat)",
    "Go harness + generators + brute-force monitors (harness/cmd/c14ecs, harness/vh), bin/check, lib/vlib.py",
    "Go runtime: maps, slices, reflection (component instantiation)",
]
HARNESSES = [{"pkg": "c14ecs", "sub": "ecs"}]
MANIFEST = {
    "text": "Coq theorems over every history of RegComponent/Spawn/Spawns/Annihilate/Annihilates/Alive/Query/Get/"
            "write/Result.Get that respects the API precondition (only living handles are annihilated), about a model "
            "that follows the Go algorithm (slot table with intrusive free list and generations, archetype graph keyed "
            "by bit masks, member lists, entity index, column storage with primaryKeys/invalids): living handles are "
            "pairwise distinct and never reissued; Alive(e) iff e is living, for every handle ever issued; Query(q) is a "
            "duplicate-free permutation of the living entities whose component set satisfies q (And/Or/In/NotIn/Equal); "
            "Get returns the value last written to that entity's component (zero value for a fresh entity) and a write "
            "changes no other cell. The model is tied to the current engine/ecs by differential runs over the public "
            "World API evaluated inside Coq (vm_compute), with brute-force Go monitors of the four clauses.",
    "note": "Trusted: Coq kernel + vm_compute; the hand-written model's correspondence is sampled, not proved; "
            "PagedSlice page arithmetic abstracted to a flat list (C16 covers it); generation counter unbounded in the "
            "model (uint32 in Go: wrap after 2^32 recycles of one slot is not covered); Go harness, generators, monitors, "
            "driver. The model describes the repaired code (fixes/C14-*.patch); on the unrepaired tree the check "
            "reports the violations. No axioms.",
    "technique": "Coq proof (representation invariant, induction over the operation list) + differential correspondence "
                 "check model vs implementation + brute-force monitors",
}


def check(ctx):
    return vlib.standard_check(ctx, ["C14"], "C14/Properties.v", HARNESSES, TRUSTED, "DESIGN.md §6 C14",
                               chk_modules=["MV.C14.Properties"])


def replay(ctx, path):
    return vlib.standard_replay(ctx, {"ecs": "c14ecs"}, path)
