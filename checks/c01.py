# C01 — an actor handles at most one message at a time
import vlib

MBOX_SOURCES = ["engine/vivid/mailbox/lock_free.go", "engine/vivid/mailbox/global_ordered_lock_free.go",
                "engine/vivid/mailbox/mailbox.go", "engine/vivid/mailbox/recipient.go"]
TRUSTED = [
    "hand-written machine coq/C01/MboxModel.v of mailbox/lock_free.go (one step per shared-memory statement), tied by per-step "
    "replay of schedules executed on the instrumented CURRENT source of both mailbox files (tie T2: lib/vlib.t2_build, "
    "harness/shim/{tsched,atomic,queues}, harness/t2/mailbox/driver.go.txt)",
    "sync/atomic modelled as sequentially consistent single steps; toolkit/queues.LFQueue as an atomic FIFO (C15 theorems); "
    "dispatcher contract: Dispatch(f) runs f once, later, on some goroutine (goroutine and ants dispatchers)",
    "Go runtime; the controlled scheduler explores interleavings of atomic operations, not compiler/CPU reorderings below sync/atomic",
]
MANIFEST = {
    "text": "Theorem C01_mutual_exclusion (Coq, invariant over every reachable state of an interleaving semantics with an unbounded "
            "pool of sender/suspender/resumer/runner threads): at most one thread is ever inside ProcessUserMessage/ProcessSystemMessage/"
            "ProcessAccident of a mailbox. The machine has one step per atomic statement of lock_free.go; on every run the current text of "
            "both mailbox files is instrumented (atomics and queue redirected to a controlled scheduler) and hundreds of random schedules "
            "(thorough: + depth-first enumeration with preemption bound 2) are replayed step by step inside Coq against the machine.",
    "note": "Trusted: Coq kernel+vm_compute; the machine is hand-written, its correspondence is checked per executed step but only on the "
            "schedules explored; atomics sequentially consistent; queue atomic FIFO; dispatcher contract; 'visible to the next invocation' "
            "is the happens-before of the model (store Idle -> CAS -> spawn), hardware conformance assumed.",
    "technique": "Coq proof (token-counting invariant over an unbounded-thread interleaving machine) + per-step schedule replay of the instrumented source in Coq",
}


def check(ctx, prop_dir="C01", props="C01/Properties.v", kinds=("mailbox:overlap",), design="DESIGN.md §6 C01"):
    ctx.trusted += TRUSTED
    bad = vlib.forbidden_scan(sorted(set(["Lib", "C01", prop_dir])))
    if bad:
        ctx.proof_errors.append("forbidden constructs: %s" % bad[:5])
    if vlib.coq_make(ctx, ["Lib", "C01"] + ([prop_dir] if prop_dir != "C01" else [])):
        vlib.coq_properties(ctx, props)
    b = vlib.t2_build(ctx, "mbox", "mailbox", MBOX_SOURCES, "mailbox")
    vlib.run_harness(ctx, b, "mbox", kinds=list(kinds))
    if ctx.tier == "thorough":
        vlib.coqchk(ctx, ["MV.%s.Properties" % prop_dir])
    return vlib.finish(ctx, "make -C coq && coqc %s (Print Assumptions); instrument + build current mailbox sources (t2_build); "
                            "coqc <schedule-replay shards> (vm_compute)" % props, design, search=vlib.default_search)


def replay(ctx, path):
    print("schedules are regenerated deterministically from VERIF_SEED; re-run `VERIF_SEED=<seed in file> bin/check %s`" % ctx.prop)
    print(open(path).read()[:3000])
    return 0
