# C01 — an actor handles at most one message at a time
import json
import os

import vlib

MBOX_SOURCES = ["engine/vivid/mailbox/lock_free.go", "engine/vivid/mailbox/global_ordered_lock_free.go",
                "engine/vivid/mailbox/mailbox.go", "engine/vivid/mailbox/recipient.go"]
TRUSTED = [
    "hand-written machine coq/C01/MboxModel.v of mailbox/lock_free.go (one step per shared-memory statement), tied by per-step "
    "replay of schedules executed on the instrumented CURRENT source of both mailbox files (tie T2: lib/vlib.t2_build, "
    "harness/shim/{tsched,atomic,queues}, harness/t2/mailbox/driver.go.txt)",
    "sync/atomic modelled as sequentially consistent single steps; toolkit/queues.LFQueue as an atomic FIFO (C15 theorems); "
    "dispatcher contract: Dispatch(f) runs f once, later, on some goroutine (goroutine and ants dispatchers)",
    "Go runtime; the controlled scheduler explores interleavings of atomic operations, not compiler/CPU reorderings below sync/atomic",
]
# the actor-level sub-check "turns" (only C01 uses it; C02 imports TRUSTED above for the mailbox tie)
TURNS_TRUSTED = [
    "sub-harness 'disp' (harness/cmd/c01disp): search oracle only, no model — the real dispatchers in real time; the ants pool itself "
    "(github.com/panjf2000/ants) is a contract",
    "actor level (sub-check turns, tie T4): the trace checker coq/C01/TurnsModel.v turns_ok is proved sound for every trace "
    "(TurnsProofs.v); what is trusted is the recording: harness/cmd/c01turns brackets every handler, supervision decision, timer "
    "callback and local function of its actors with Begin/End, the recorder is one atomic fetch-and-add per event (Go atomics "
    "sequentially consistent), the event packer / Coq decoder TurnsRun.tdec (pinned by tdec_examples and by a corpus of traces with "
    "known verdicts evaluated on every run), and that the scripts reach the entry points (distribution in the evidence); real "
    "goroutines: interleavings are sampled by the Go scheduler, not enumerated — entry points that bypass the mailbox are caught "
    "deterministically by the hold phases (an invocation kept open while the entry point is fired), racy ones only statistically",
]
MANIFEST = {
    "text": "Theorem C01_mutual_exclusion (Coq, invariant over every reachable state of an interleaving semantics with an unbounded "
            "pool of sender/suspender/resumer/runner threads): at most one thread is ever inside ProcessUserMessage/ProcessSystemMessage/"
            "ProcessAccident of a mailbox. The machine has one step per atomic statement of lock_free.go; on every run the current text of "
            "both mailbox files is instrumented (atomics and queue redirected to a controlled scheduler) and hundreds of random schedules "
            "(thorough: + depth-first enumeration with preemption bound 2) are replayed step by step inside Coq against the machine. "
            "Actor level (sub-check turns): that every piece of user code of an actor — receive handler for user and lifecycle/system "
            "messages, supervision decisions, timer callbacks (After/Repeated/ImmediateCron/DayMoment tasks), functions passed to "
            "ExecLocalFunc (context and system, own reference and others) — runs as a turn of its mailbox is checked on the real "
            "ActorSystem (real goroutines, LockFree and GlobalOrderedLockFree, default ants / goroutine / one-worker ants dispatchers): "
            "thousands of random scripts (storms from several goroutines; one invocation kept open on a channel while every other entry "
            "point is fired at the actor; failures with restart/resume/stop, terminate, re-creation) record Begin/End events through a "
            "fetch-and-add recorder plus a plain per-actor variable; every trace is evaluated under vm_compute by the Coq checker turns_ok, "
            "for which C01_turns_no_overlap (any two invocations of one actor at positions b1<e1, b2<e2 satisfy e1<b2 or e2<b1), "
            "C01_turns_bracketed, C01_turns_reads_last_write / _first_reads_init (each invocation read exactly what its predecessor wrote), "
            "C01_turns_closed_all_ended, C01_turns_complete / _exact (accepted = per-actor sequential histories, so correct behaviour is "
            "never rejected) and C01_turns_rejects_seeded_behaviours are proved for every trace; thorough tier additionally under the race detector. The dispatcher contract the machine assumes (Dispatch(f) runs f exactly once) is checked on the shipped dispatchers themselves by "
            "harness/cmd/c01disp (goroutine; ants unbounded / bounded non-blocking / bounded blocking, all workers occupied up to 250 ms; "
            "monitors C01:disp:ran-twice, never-ran, dispatch-blocks).",
    "note": "Trusted: Coq kernel+vm_compute; the machine is hand-written, its correspondence is checked per executed step but only on the "
            "schedules explored; atomics sequentially consistent; queue atomic FIFO; dispatcher contract; 'visible to the next invocation' "
            "is the happens-before of the model (store Idle -> CAS -> spawn), hardware conformance assumed. Actor level: the checker is proved, "
            "the recording is trusted (Begin/End brackets in the harness's actors, fetch-and-add recorder, packer/decoder pinned by a corpus); "
            "interleavings of the real system are sampled, not enumerated: a bypass of the mailbox is caught deterministically when the script "
            "holds an invocation open and fires that entry point (every script does, for randomly chosen entry points), a window of a few "
            "instructions only statistically; StateChangeEventApply (persistence), which re-enters OnReceive from inside a handler by design, "
            "is not exercised.",
    "technique": "Coq proof (token-counting invariant over an unbounded-thread interleaving machine) + per-step schedule replay of the instrumented source in Coq "
                 "+ proved trace checker (T4) run in Coq on Begin/End traces recorded on the real ActorSystem, Go monitors, race detector (thorough)",
}

TURNS_KINDS = ["C01:turns:"]


def turns(ctx):
    """Actor-level sub-check: every piece of user code of an actor runs as a turn of its mailbox (harness/cmd/c01turns)."""
    ctx.trusted += TURNS_TRUSTED
    b = vlib.go_build(ctx, "c01turns")
    vlib.run_harness(ctx, b, "turns", kinds=TURNS_KINDS)
    # the dispatcher contract the mailbox machine assumes (Dispatch(f) runs f exactly once) on the shipped dispatchers in every
    # configuration of their constructors, bounded BLOCKING pools with all workers busy included (monitors only)
    d = vlib.go_build(ctx, "c01disp")
    vlib.run_harness(ctx, d, "disp", coq=False, kinds=["C01:disp:"])
    if ctx.tier == "thorough":
        # the same scripts under the race detector: the actors' second plain variable is accessed outside the recorder's
        # atomics, so a missing happens-before between two turns of one actor is a reported race
        try:
            rb = vlib.go_build(ctx, "c01turns", name="c01turns_race", race=True)
        except vlib.CheckError as e:
            ctx.notes.append("race-detector build of c01turns not available here: %s" % str(e)[-300:])
            return
        outdir = os.path.join(ctx.scratch, "out_turnsrace")
        os.makedirs(outdir, exist_ok=True)
        env = dict(os.environ, GORACE="halt_on_error=0 exitcode=0 log_path=%s" % os.path.join(outdir, "race"))
        vlib.run_harness(ctx, rb, "turnsrace", args=["-sub", "turnsrace", "-n", "1500"], env=env, kinds=TURNS_KINDS)


def check(ctx, prop_dir="C01", props="C01/Properties.v", kinds=("mailbox:overlap",), design="DESIGN.md §6 C01"):
    ctx.trusted += TRUSTED
    bad = vlib.forbidden_scan(sorted(set(["Lib", "C01", prop_dir])))
    if bad:
        ctx.proof_errors.append("forbidden constructs: %s" % bad[:5])
    if vlib.coq_make(ctx, ["Lib", "C01"] + ([prop_dir] if prop_dir != "C01" else [])):
        vlib.coq_properties(ctx, props)
    b = vlib.t2_build(ctx, "mbox", "mailbox", MBOX_SOURCES, "mailbox")
    vlib.run_harness(ctx, b, "mbox", kinds=list(kinds))
    turns(ctx)
    if ctx.tier == "thorough":
        vlib.coqchk(ctx, ["MV.%s.Properties" % prop_dir])
    return vlib.finish(ctx, "make -C coq && coqc %s (Print Assumptions); instrument + build current mailbox sources (t2_build); "
                            "coqc <schedule-replay shards> (vm_compute); go build harness/cmd/c01turns against the working tree, run, "
                            "coqc <trace shards> (turns_ok under vm_compute)" % props, design, search=vlib.default_search)


def replay_turns(ctx, path, d):
    """Re-execute the script of a turns replay file on the current tree (the interleaving is the Go scheduler's, so the script
    is run several times), and show where the Coq checker stops on the recorded trace."""
    case = d.get("case") or {}
    trace = case.get("trace") or []
    if trace and vlib.coq_make(ctx, ["Lib", "C01"]):
        v = os.path.join(ctx.scratch, "replay_trace.v")
        open(v, "w").write(
            "From Coq Require Import Uint63.\nFrom MV Require Import Lib.ListX C01.TurnsModel C01.TurnsRun.\n"
            "Definition c := {| tcid := 0%%nat; tpacked := ([%s])%%uint63; tcomplete := %s; texpect := true |}.\n"
            "Definition coq_checker_accepts_recorded_trace := Eval vm_compute in tverdict c.\nPrint coq_checker_accepts_recorded_trace.\n"
            "Definition first_rejected_event := Eval vm_compute in tdiagnose c.\nPrint first_rejected_event.\n"
            % ("; ".join(str(x) for x in trace), "true" if case.get("complete") else "false"))
        rc, out, err, _ = vlib.sh(["coqc", "-Q", vlib.COQ, "MV", v], cwd=ctx.scratch, timeout=600)
        print((out + err).strip())
    b = vlib.go_build(ctx, "c01turns")
    rc, out, err, _ = vlib.sh([b, "-replay", path], timeout=900)
    print(out.strip())
    if err.strip():
        print(err.strip()[-3000:])
    print("monitor verdict on the current tree: %s" % ("VIOLATION reproduced" if rc else "no violation"))
    return rc


def replay(ctx, path):
    try:
        d = json.load(open(path))
    except Exception:
        d = {}
    if str(d.get("sub", "")).startswith("turns") or str(d.get("kind", "")).startswith("C01:turns:"):
        return replay_turns(ctx, path, d)
    if d.get("sub") == "disp":
        return vlib.standard_replay(ctx, {"disp": "c01disp"}, path)
    print("schedules are regenerated deterministically from VERIF_SEED; re-run `VERIF_SEED=<seed in file> bin/check %s`" % ctx.prop)
    print(open(path).read()[:3000])
    return 0
