# C07 — an ask resolves exactly once: with its own reply or with a timeout
import json
import os
import re
import shutil
import time

import vlib

FUT_SOURCES = ["engine/future/future.go", "engine/future/errors.go"]
# tie T2: imports redirected to controlled-scheduler shims + a scheduler step in front of the four plain statements of
# future.go that touch shared memory (if a statement is reworded the step is missing and the replay diverges)
REWRITES = {
    '"github.com/kercylan98/minotaur/engine/prc"': 'prc "verif/harness/shim/c07prc"',
    '"sync"\n': 'sync "verif/harness/shim/c07sync"\n',
    '"time"\n': 'time "verif/harness/shim/c07time"\n',
    "\t\tf.message = message\n": "\t\tverifPlain(f, \"message\", message)\n\t\tf.message = message\n",
    "\tf.err = reason\n": "\tverifPlain(f, \"err\", reason)\n\tf.err = reason\n",
    "\tclose(f.done)\n": "\tverifPlain(f, \"done\", nil)\n\tclose(f.done)\n",
    "\t<-f.done\n": "\tverifWait(f)\n\t<-f.done\n",
}
TRUSTED = [
    "hand-written machine coq/C07/FutModel.v of engine/future/future.go (one step per statement that touches shared memory), "
    "tied by per-step replay in Coq of schedules executed on the instrumented CURRENT text of future.go (tie T2: lib/vlib.t2_build, "
    "harness/t2/c07fut/driver.go.txt, shims harness/shim/{tsched,atomic,c07sync,c07time,c07prc}); the timer is a scheduler thread: "
    "'no later than its timeout' is model time",
    "hand-written machine coq/C07/IdsModel.v of nextChildGuid (actor_context.go), Register's LoadOrStore + conditional Initialize "
    "(resource_controller.go) and reply routing; the text of nextChildGuid in the tree under test is read on every run and must be the "
    "single atomic add the theorems C07_ids_distinct_concurrent / C07_own_reply_concurrent / C07_every_ask_armed are about",
    "tie T1 (harness/cmd/c07ask): stress runs on the real ActorSystem with real (1 ms - 2 s) timeouts; per ask the ordering of the reply "
    "w.r.t. the deadline is classified from monotonic timestamps (Go timers never fire early) and the observed outcome must be one the "
    "machine allows for that ordering; explored interleavings are those the Go runtime happens to produce",
    "hand-written machine coq/C07/LifeModel.v of the id counter over the life of an actor context (every consumer of nextChildGuid: "
    "FutureAsk, typed FutureAsk, AwaitForward, ActorOf without a name; restart = same context; re-creation under the same name = new "
    "context); tie T3 (harness/translate/c07guid, go/ast, syntactic, package engine/vivid of the tree under test): every occurrence of "
    "childGuid, every call of nextChildGuid and every creation of an actorContext is extracted to Coq and Instance.v proves by vm_compute "
    "that they are exactly the machine's (one atomic add-and-fetch of 1 whose result names one address) — accesses through reflection, "
    "unsafe, or a whole-struct copy/assignment of an actorContext are not seen; tie T1 sub-harness 'life' (harness/cmd/c07ask/life.go): "
    "scripts with restarts / re-creation on the real ActorSystem, allocated addresses and outcomes compared with the machine's run",
    "hand-written machine coq/C07/RegModel.v of the creation of a future (future.New -> ResourceController.Register -> futureProcess.Initialize "
    "as separate atomic steps: LoadOrStore, f.rc, f.ref, time.AfterFunc; the timer goroutine may run immediately after it is armed = every "
    "timeout value; Close = CAS ; close(done) ; Stop ; Unregister) PARAMETERISED by the order of the creation steps; tie T3 "
    "(harness/translate/c07reg, go/ast, syntactic, engine/prc + engine/future of the tree under test): the operations on the process table "
    "and the call of Initialize in Register, the assignments of the controller / the reference and the creation of the timer in Initialize, "
    "the call of Register in New are extracted in source order to Coq and RegInstance.v proves by vm_compute that the creation order they "
    "denote is one the release theorems hold for (order_ok) — if/else bodies are read in source order (the machine is about a fresh "
    "address), creation steps under go/defer/loops/function literals are rejected, helper functions of other packages, reflection, unsafe and "
    "aliases of the future are not seen; that one future lives under one fresh address is the business of the Ids/Life machines",
    "tie T1 sub-harness 'leak' (harness/cmd/c07ask/leak.go): search oracle only — asks with 1 ns .. 3 us timeouts from 4-16 goroutines on the "
    "real system, registry enumerated afterwards through the hook VerifResourceController + reflection (fall-back: GetProcess probes); the "
    "interleavings are those the Go runtime happens to produce; 2 s grace before an address counts as leaked",
    "sync/atomic sequentially consistent single steps; xsync.MapOf Load / LoadOrStore / Compute atomic; Go runtime; Coq kernel + vm_compute",
]
MANIFEST = {
    "text": "Coq theorems over every schedule of two interleaving machines with an unbounded pool of goroutines. Future process "
            "(future.go, statement by statement): close(done) runs at most once; after completion f.err never changes (f.message can still "
            "be overwritten by a deliverer that had read closed=false before the completion — proved exactly, with the refuting schedule); "
            "the result is a message delivered to this very process, the armed timer's timeout error, an error reply delivered to this "
            "process, or the user's own Close reason; with the timer armed the ask is completed once the timer goroutine has run and never "
            "hangs; the reply address is unregistered by the completion. Reply addresses (nextChildGuid + Register + reply routing): ids "
            "are distinct for one sequential asker on the code as written and for any number of concurrent askers on the repaired atomic "
            "counter, hence every future is initialised and completes only with the reply to its own request; for the counter as written "
            "two concurrent askers get the same address (witness: wrong reply + an ask that never completes). Life of the id source "
            "(LifeModel): over the whole life of one actor context — any number of restarts, concurrent users, and whichever consumer "
            "(ask, typed ask, AwaitForward, anonymous child) — every value handed out is fresh, so no two asks (a fortiori no two live "
            "ones) share a reply address, every future is initialised and resolves only with its own reply; the counter accesses of the "
            "tree under test are extracted (go/ast) and proved to be the machine's on every run; a store on the restart path, and the "
            "re-creation of an actor under the same name while an ask is pending (open finding), are refuted by witnesses. On every run "
            "scripts with restarts and re-creations drive one asker on the real system (addresses, outcomes and second reads compared "
            "with the machine; monitors: address reused among live asks, foreign reply, never resolved, resolved twice). On every run the current "
            "future.go is instrumented and hundreds of random (thorough: + depth-first, preemption bound 2) schedules of {reply, error "
            "reply, second reply, timeout, Close, Forward, Result} are replayed step by step in Coq; a stress harness drives the real "
            "ActorSystem (1/2/8/16 askers x 7 target behaviours (incl. an error piped through another future's Forward) x system / actor context / typed helper) and checks per ask: completes "
            "within timeout+slack, once, with its own sequence number or the timeout or its own error reply; reply address released. "
            "Creation of a future (RegModel: New -> Register -> Initialize as separate atomic steps — publish in the registry, f.rc, f.ref, arm "
            "the timer — in the order the machine is given, against the timer goroutine, which may run immediately after it is armed, and any "
            "number of other Close callers): for every order in which the future is stored (once) and holds its controller and reference "
            "before the timer is armed and before New returns — in particular the order of the source — every timeout and every schedule: no "
            "nil dereference, every Unregister finds the future, the address is stored once and removed once, after the completion it is not "
            "registered and never registered again; 'Initialize before publishing' is refuted by the schedule in which the timer fires "
            "between AfterFunc and LoadOrStore (the completed future stays registered for ever), 'reference after the timer' by the nil "
            "dereference in the timer goroutine. The creation order of the tree under test is extracted on every run (go/ast over Register, "
            "Initialize, New) and proved to be an accepted one by vm_compute; when it is not, the implementation is searched for the refuting "
            "schedule: 4-16 goroutines issue 10^5-10^6 asks with timeouts of 1 ns .. 3 us against a silent target (system / actor context / "
            "future.New on the system's registry) and the registry is enumerated afterwards for reply addresses of completed asks — the same "
            "family runs (smaller) on every run as a monitor.",
    "note": "Model = repaired code: three small defects were found and are repaired by fixes/C07-guid-atomic.patch (shared non-atomic "
            "childGuid: foreign replies and asks that never complete), fixes/C07-typed-ask.patch (typed helper delivers the unwrapped "
            "request: target sees nil, ask always times out), fixes/C07-error-reply.patch (error reply inside a MessageWrapper completes the "
            "ask successfully). Trusted: hand-written machines (correspondence checked per executed step / per observed outcome only on the "
            "schedules explored), atomics sequentially consistent, registry map operations atomic, real-time slack 1.5 s in the stress "
            "monitors. The creation-order tie (c07reg) is syntactic: it reads Register / Initialize / New and inlines methods of the same "
            "receiver; a creation step hidden in a helper of another package or done through reflection is not seen (the stress family "
            "'leak' and T2 are the safety net). Not covered: remote (shared/cluster) asks, AwaitForward.",
    "technique": "Coq proof (counting + provenance invariants over unbounded-thread interleaving machines) + per-step schedule replay of the "
                 "instrumented source + source facts extracted by go/ast translators (id counter accesses; order of the creation steps of a "
                 "future) proved to be the machines' by vm_compute + stress/differential harness on the real system (incl. a tiny-timeout "
                 "registry-leak search)",
}

ATOMIC_GUID = re.compile(r"func \(ctx \*actorContext\) nextChildGuid\(\) uint64 \{\s*return atomic\.AddUint64\(&ctx\.childGuid, 1\)\s*\}")


def source_facts(ctx):
    """The Ids theorems for concurrent askers are about the one-step (atomic) counter: check that this is the text under test."""
    src = open(os.path.join(vlib.REPO, "engine/vivid/actor_context.go")).read()
    m = re.search(r"func \(ctx \*actorContext\) nextChildGuid\(\) uint64 \{.*?\n\}", src, re.S)
    body = m.group(0) if m else "<not found>"
    ctx.extra["nextChildGuid"] = body
    if not ATOMIC_GUID.search(src):
        ctx.proof_errors.append(
            "engine/vivid/actor_context.go: nextChildGuid is not the single atomic add modelled by [iinit true]; for this text "
            "(load; store; load on a counter shared by every asker of a context) C07_ids_distinct_concurrent_refuted applies: %s" % body.replace("\n", " "))
    fut = open(os.path.join(vlib.REPO, FUT_SOURCES[0])).read()
    missing = [k.strip() for k in REWRITES if k not in fut]
    if missing:
        ctx.notes.append("future.go no longer contains the statement(s) %s: their scheduler steps are missing from the T2 log" % missing)


def t3(ctx):
    """Tie T3: extract every access to the id counter from the CURRENT engine/vivid, emit Extracted.v + Instance.v, compile them."""
    names = ["C07_counter_source_facts", "C07_whole_life_of_this_source"]
    ctx.obligations += len(names)
    d = os.path.join(ctx.scratch, "t3")
    os.makedirs(d, exist_ok=True)
    try:
        exe = vlib.go_build(ctx, "./translate/c07guid", name="c07guid")
    except vlib.CheckError as e:
        ctx.proof_errors.append("T3: cannot build harness/translate/c07guid: %s" % str(e)[-800:])
        return
    rc, o, e, _ = vlib.sh([exe, "-repo", vlib.REPO, "-out", d], timeout=120)
    if rc != 0:
        ctx.proof_errors.append("T3: the id counter of actorContext cannot be read from %s/engine/vivid: %s" % (vlib.REPO, (o + e)[-800:]))
        return
    facts = json.loads(o.strip().splitlines()[-1])
    ctx.extra["t3_counter_accesses"] = facts
    out = ""
    for f in ("Extracted.v", "Instance.v"):
        rc, o2, e2, _ = vlib.sh(["coqc", "-Q", vlib.COQ, "MV", "-Q", d, "", os.path.join(d, f)], cwd=d, timeout=900)
        if rc != 0:
            odd = [a for a in facts["accesses"] if not (a["kind"] == "add1" and a["fn"] == "nextChildGuid")]
            odd += [c for c in facts["consumers"] if c["use"] == "other"]
            ctx.proof_errors.append(
                "T3: the accesses to actorContext.childGuid in the tree under test are not the ones of the machine MV.C07.LifeModel "
                "(single atomic add-and-fetch of 1 in nextChildGuid, each result naming one address): %s; creators of contexts: %s. "
                "The whole-life theorems do not apply to this source (for a store on the restart path see C07_counter_reset_on_restart_refuted). %s" %
                (json.dumps(odd), facts["creators"], (o2 + e2)[-400:].replace("\n", " ")))
            return
        out += o2
    bad = vlib.FORBIDDEN.search(vlib.strip_comments(open(os.path.join(d, "Extracted.v")).read() + open(os.path.join(d, "Instance.v")).read()))
    closed = len(re.findall(r"Closed under the global context", out))
    if bad or closed != len(names):
        ctx.proof_errors.append("T3: instance theorems not closed under the global context:\n" + out[-800:])
        return
    for n in names:
        ctx.theorems.append(n)
        ctx.axioms[n] = []
        ctx.discharged += 1


LEAK_ORDER = ["SLookup", "SSetRc", "SSetRef", "SArm", "SPublish", "SSetRef"]      # MV.C07.RegModel.init_first_order
REF_LATE_ORDER = ["SPublish", "SSetRc", "SArm", "SSetRef"]                          # MV.C07.RegModel.ref_after_timer_order


def t3_reg(ctx):
    """Tie T3 (creation order): extract the statements of Register / Initialize / New of the CURRENT tree that publish the future,
    set its controller / reference and arm its timer, in source order; emit RegExtracted.v + RegInstance.v; compile them."""
    names = ["C07_creation_order_source_facts", "C07_reply_address_released_of_this_source"]
    ctx.obligations += len(names)
    d = os.path.join(ctx.scratch, "t3reg")
    os.makedirs(d, exist_ok=True)
    try:
        exe = vlib.go_build(ctx, "./translate/c07reg", name="c07reg")
    except vlib.CheckError as e:
        ctx.proof_errors.append("T3: cannot build harness/translate/c07reg: %s" % str(e)[-800:])
        return
    rc, o, e, _ = vlib.sh([exe, "-repo", vlib.REPO, "-out", d], timeout=120)
    if rc != 0:
        ctx.extra["creation_order_tie"] = "broken"
        ctx.proof_errors.append("T3: Register / Initialize / New cannot be read from %s/engine/{prc,future}: %s" % (vlib.REPO, (o + e)[-800:]))
        return
    facts = json.loads(o.strip().splitlines()[-1])
    ctx.extra["t3_creation_order"] = facts
    out = ""
    for f in ("RegExtracted.v", "RegInstance.v"):
        rc, o2, e2, _ = vlib.sh(["coqc", "-Q", vlib.COQ, "MV", "-Q", d, "", os.path.join(d, f)], cwd=d, timeout=900)
        if rc != 0:
            ctx.extra["creation_order_tie"] = "broken"
            order = facts.get("order")
            witness = ""
            if order == LEAK_ORDER:
                witness = (" This is MV.C07.RegModel.init_first_order: C07_register_initialises_before_publishing_refuted is the refuting schedule "
                           "(the timer fires between AfterFunc and LoadOrStore, its Close unregisters an address that is not registered yet, "
                           "Register then stores the completed future: the reply address stays registered for ever).")
            elif order == REF_LATE_ORDER or (order and "SArm" in order and "SSetRef" in order and order.index("SArm") < order.index("SSetRef")):
                witness = (" The timer is armed before the future holds its reference: C07_ref_stored_after_timer_refuted is the refuting "
                           "schedule (nil dereference in the timer goroutine).")
            elif order and "SPublish" in order and "SArm" in order and order.index("SArm") < order.index("SPublish"):
                witness = (" The timer is armed before the future is stored in the registry: same class as "
                           "C07_register_initialises_before_publishing_refuted.")
            stm = lambda evs: ["%s %s: %s%s" % (x["kind"], x["pos"], x["text"], (" [" + x["why"] + "]") if x.get("why") else "") for x in evs]
            ctx.proof_errors.append(
                "T3: the creation steps of a future in the tree under test are executed in the order %s, which is not one the release theorems "
                "of MV.C07.RegProofs hold for (order_ok: before the timer is armed and before New returns the future must be stored in the "
                "registry, once, and hold its controller and its reference; the source the theorems were stated for has %s).%s "
                "Register: %s; Initialize: %s; New: %s. %s" %
                (order, ["SPublish", "SSetRc", "SSetRef", "SArm", "SSetRef"], witness, stm(facts["register"]), stm(facts["initialize"]),
                 stm(facts["new"]), (o2 + e2)[-300:].replace("\n", " ")))
            return
        out += o2
    bad = vlib.FORBIDDEN.search(vlib.strip_comments(open(os.path.join(d, "RegExtracted.v")).read() + open(os.path.join(d, "RegInstance.v")).read()))
    closed = len(re.findall(r"Closed under the global context", out))
    if bad or closed != len(names):
        ctx.extra["creation_order_tie"] = "broken"
        ctx.proof_errors.append("T3 (creation order): instance theorems not closed under the global context:\n" + out[-800:])
        return
    ctx.extra["creation_order_tie"] = "ok"
    for n in names:
        ctx.theorems.append(n)
        ctx.axioms[n] = []
        ctx.discharged += 1


def leak_search(ctx, budget_s=None):
    """Failing-input search. When the creation-order tie is broken the model has the refuting schedule (a timer that fires inside
    the creation of the future): look for it on the implementation first — the tiny-timeout family of c07ask (sub-harness 'leak') at
    thorough volume under fresh seeds — then fall back to the generic search over every sub-harness."""
    t0 = time.time()
    tried = 0
    if ctx.extra.get("creation_order_tie") == "broken" and getattr(ctx, "c07ask_binary", None):
        budget = budget_s or (60 if ctx.tier == "quick" else 300)
        k = 0
        env = dict(os.environ, C07_SUBS="leak")
        while time.time() - t0 < budget:
            k += 1
            outdir = os.path.join(ctx.scratch, "search_leak_%d" % k)
            os.makedirs(outdir, exist_ok=True)
            seed = ctx.seed + 104729 * k
            vlib.sh([ctx.c07ask_binary, "-out", outdir, "-seed", str(seed), "-tier", "thorough", "-nocoq"],
                    timeout=max(30, budget - (time.time() - t0) + 60), env=env)
            sp = os.path.join(outdir, "leak_summary.json")
            if os.path.exists(sp):
                s = json.load(open(sp))
                for hist in (s.get("distribution") or {}).get("ask_outcome", {}).values():
                    tried += hist
                for v in s.get("violations") or []:
                    if not vlib.match_known(ctx.prop, v):
                        v["search"] = {"seed": seed, "tier": "thorough", "family": "tiny-timeout", "asks_tried": tried}
                        return v
            shutil.rmtree(outdir, ignore_errors=True)
        ctx.extra["leak_search"] = {"asks_tried": tried, "wall_s": round(time.time() - t0, 1), "found": False}
    return vlib.default_search(ctx, budget_s)


def check(ctx):
    ctx.trusted += TRUSTED
    try:
        bad = vlib.forbidden_scan(["Lib", "C07"])
    except TypeError:
        bad = vlib.forbidden_scan()
    if bad:
        ctx.proof_errors.append("forbidden constructs: %s" % bad[:5])
    if vlib.coq_make(ctx, ["Lib", "C07"]):
        vlib.coq_properties(ctx, "C07/Properties.v")
        t3(ctx)
        t3_reg(ctx)
    source_facts(ctx)
    # T1 first: the stress harness on the real system (monitors decide; Coq recomputes the allowed outcomes); the binary
    # writes two summaries: "ask" (stress) and "life" (scripts with restarts / re-creation, see harness/cmd/c07ask/life.go)
    # (third summary: "leak", the tiny-timeout registry-leak family, see harness/cmd/c07ask/leak.go)
    b1 = vlib.go_build(ctx, "c07ask")
    ctx.c07ask_binary = b1
    vlib.run_harness(ctx, b1, "ask", timeout=1500)
    # T2: instrumented current source of the future process under the controlled scheduler
    b2 = vlib.t2_build(ctx, "fut", "future", FUT_SOURCES, "c07fut", rewrites=REWRITES)
    vlib.run_harness(ctx, b2, "fut", timeout=1500)
    if ctx.tier == "thorough":
        vlib.coqchk(ctx, ["MV.C07.Properties"])
    rc = vlib.finish(ctx, "make -C coq && coqc C07/Properties.v (Print Assumptions per theorem); go run harness/translate/c07guid && coqc Extracted.v Instance.v "
                            "(counter accesses of the tree under test = the machine's); go run harness/translate/c07reg && coqc RegExtracted.v RegInstance.v "
                            "(order of the creation steps of a future in the tree under test = one the release theorems hold for); "
                            "read nextChildGuid of the tree under test; "
                            "go build harness/cmd/c07ask against the tree + run (T1); instrument + build current future.go (t2_build) + run (T2); "
                            "coqc <outcome-table and schedule-replay shards> (vm_compute)", "DESIGN.md §6 C07", search=leak_search)
    return rc


def replay(ctx, path):
    import json
    d = json.load(open(path))
    if d.get("sub") == "fut":
        b = vlib.t2_build(ctx, "fut", "future", FUT_SOURCES, "c07fut", rewrites=REWRITES)
        rc, out, err, _ = vlib.sh([b, "-replay", path], timeout=600)
        print(out.strip())
        if err.strip():
            print(err.strip())
        return rc
    return vlib.standard_replay(ctx, {"ask": "c07ask", "life": "c07ask", "leak": "c07ask"}, path)
