# C07 — an ask resolves exactly once: with its own reply or with a timeout
import json
import os
import re

import vlib

FUT_SOURCES = ["engine/future/future.go", "engine/future/errors.go"]
# tie T2: imports redirected to controlled-scheduler shims + a scheduler step in front of the four plain statements of
# future.go that touch shared memory (if a statement is reworded the step is missing and the replay diverges)
REWRITES = {
    '"github.com/kercylan98/minotaur/engine/prc"': 'prc "verif/harness/shim/c07prc"',
    '"sync"\n': 'sync "verif/harness/shim/c07sync"\n',
    '"time"\n': 'time "verif/harness/shim/c07time"\n',
    "\t\tf.message = message\n": "\t\tverifPlain(f, \"message\", message)\n\t\tf.message = message\n",
    "\tf.err = reason\n": "\tverifPlain(f, \"err\", reason)\n\tf.err = reason\n",
    "\tclose(f.done)\n": "\tverifPlain(f, \"done\", nil)\n\tclose(f.done)\n",
    "\t<-f.done\n": "\tverifWait(f)\n\t<-f.done\n",
}
TRUSTED = [
    "hand-written machine coq/C07/FutModel.v of engine/future/future.go (one step per statement that touches shared memory), "
    "tied by per-step replay in Coq of schedules executed on the instrumented CURRENT text of future.go (tie T2: lib/vlib.t2_build, "
    "harness/t2/c07fut/driver.go.txt, shims harness/shim/{tsched,atomic,c07sync,c07time,c07prc}); the timer is a scheduler thread: "
    "'no later than its timeout' is model time",
    "hand-written machine coq/C07/IdsModel.v of nextChildGuid (actor_context.go), Register's LoadOrStore + conditional Initialize "
    "(resource_controller.go) and reply routing; the text of nextChildGuid in the tree under test is read on every run and must be the "
    "single atomic add the theorems C07_ids_distinct_concurrent / C07_own_reply_concurrent / C07_every_ask_armed are about",
    "tie T1 (harness/cmd/c07ask): stress runs on the real ActorSystem with real (1 ms - 2 s) timeouts; per ask the ordering of the reply "
    "w.r.t. the deadline is classified from monotonic timestamps (Go timers never fire early) and the observed outcome must be one the "
    "machine allows for that ordering; explored interleavings are those the Go runtime happens to produce",
    "hand-written machine coq/C07/LifeModel.v of the id counter over the life of an actor context (every consumer of nextChildGuid: "
    "FutureAsk, typed FutureAsk, AwaitForward, ActorOf without a name; restart = same context; re-creation under the same name = new "
    "context); tie T3 (harness/translate/c07guid, go/ast, syntactic, package engine/vivid of the tree under test): every occurrence of "
    "childGuid, every call of nextChildGuid and every creation of an actorContext is extracted to Coq and Instance.v proves by vm_compute "
    "that they are exactly the machine's (one atomic add-and-fetch of 1 whose result names one address) — accesses through reflection, "
    "unsafe, or a whole-struct copy/assignment of an actorContext are not seen; tie T1 sub-harness 'life' (harness/cmd/c07ask/life.go): "
    "scripts with restarts / re-creation on the real ActorSystem, allocated addresses and outcomes compared with the machine's run",
    "sync/atomic sequentially consistent single steps; xsync.MapOf LoadOrStore / LoadAndDelete atomic; Go runtime; Coq kernel + vm_compute",
]
MANIFEST = {
    "text": "Coq theorems over every schedule of two interleaving machines with an unbounded pool of goroutines. Future process "
            "(future.go, statement by statement): close(done) runs at most once; after completion f.err never changes (f.message can still "
            "be overwritten by a deliverer that had read closed=false before the completion — proved exactly, with the refuting schedule); "
            "the result is a message delivered to this very process, the armed timer's timeout error, an error reply delivered to this "
            "process, or the user's own Close reason; with the timer armed the ask is completed once the timer goroutine has run and never "
            "hangs; the reply address is unregistered by the completion. Reply addresses (nextChildGuid + Register + reply routing): ids "
            "are distinct for one sequential asker on the code as written and for any number of concurrent askers on the repaired atomic "
            "counter, hence every future is initialised and completes only with the reply to its own request; for the counter as written "
            "two concurrent askers get the same address (witness: wrong reply + an ask that never completes). Life of the id source "
            "(LifeModel): over the whole life of one actor context — any number of restarts, concurrent users, and whichever consumer "
            "(ask, typed ask, AwaitForward, anonymous child) — every value handed out is fresh, so no two asks (a fortiori no two live "
            "ones) share a reply address, every future is initialised and resolves only with its own reply; the counter accesses of the "
            "tree under test are extracted (go/ast) and proved to be the machine's on every run; a store on the restart path, and the "
            "re-creation of an actor under the same name while an ask is pending (open finding), are refuted by witnesses. On every run "
            "scripts with restarts and re-creations drive one asker on the real system (addresses, outcomes and second reads compared "
            "with the machine; monitors: address reused among live asks, foreign reply, never resolved, resolved twice). On every run the current "
            "future.go is instrumented and hundreds of random (thorough: + depth-first, preemption bound 2) schedules of {reply, error "
            "reply, second reply, timeout, Close, Forward, Result} are replayed step by step in Coq; a stress harness drives the real "
            "ActorSystem (1/2/8/16 askers x 6 target behaviours x system / actor context / typed helper) and checks per ask: completes "
            "within timeout+slack, once, with its own sequence number or the timeout or its own error reply; reply address released.",
    "note": "Model = repaired code: three small defects were found and are repaired by fixes/C07-guid-atomic.patch (shared non-atomic "
            "childGuid: foreign replies and asks that never complete), fixes/C07-typed-ask.patch (typed helper delivers the unwrapped "
            "request: target sees nil, ask always times out), fixes/C07-error-reply.patch (error reply inside a MessageWrapper completes the "
            "ask successfully). Trusted: hand-written machines (correspondence checked per executed step / per observed outcome only on the "
            "schedules explored), atomics sequentially consistent, registry map operations atomic, real-time slack 1.5 s in the stress "
            "monitors. Not covered: remote (shared/cluster) asks, AwaitForward.",
    "technique": "Coq proof (counting + provenance invariants over unbounded-thread interleaving machines) + per-step schedule replay of the "
                 "instrumented source + stress/differential harness on the real system",
}

ATOMIC_GUID = re.compile(r"func \(ctx \*actorContext\) nextChildGuid\(\) uint64 \{\s*return atomic\.AddUint64\(&ctx\.childGuid, 1\)\s*\}")


def source_facts(ctx):
    """The Ids theorems for concurrent askers are about the one-step (atomic) counter: check that this is the text under test."""
    src = open(os.path.join(vlib.REPO, "engine/vivid/actor_context.go")).read()
    m = re.search(r"func \(ctx \*actorContext\) nextChildGuid\(\) uint64 \{.*?\n\}", src, re.S)
    body = m.group(0) if m else "<not found>"
    ctx.extra["nextChildGuid"] = body
    if not ATOMIC_GUID.search(src):
        ctx.proof_errors.append(
            "engine/vivid/actor_context.go: nextChildGuid is not the single atomic add modelled by [iinit true]; for this text "
            "(load; store; load on a counter shared by every asker of a context) C07_ids_distinct_concurrent_refuted applies: %s" % body.replace("\n", " "))
    fut = open(os.path.join(vlib.REPO, FUT_SOURCES[0])).read()
    missing = [k.strip() for k in REWRITES if k not in fut]
    if missing:
        ctx.notes.append("future.go no longer contains the statement(s) %s: their scheduler steps are missing from the T2 log" % missing)


def t3(ctx):
    """Tie T3: extract every access to the id counter from the CURRENT engine/vivid, emit Extracted.v + Instance.v, compile them."""
    names = ["C07_counter_source_facts", "C07_whole_life_of_this_source"]
    ctx.obligations += len(names)
    d = os.path.join(ctx.scratch, "t3")
    os.makedirs(d, exist_ok=True)
    try:
        exe = vlib.go_build(ctx, "./translate/c07guid", name="c07guid")
    except vlib.CheckError as e:
        ctx.proof_errors.append("T3: cannot build harness/translate/c07guid: %s" % str(e)[-800:])
        return
    rc, o, e, _ = vlib.sh([exe, "-repo", vlib.REPO, "-out", d], timeout=120)
    if rc != 0:
        ctx.proof_errors.append("T3: the id counter of actorContext cannot be read from %s/engine/vivid: %s" % (vlib.REPO, (o + e)[-800:]))
        return
    facts = json.loads(o.strip().splitlines()[-1])
    ctx.extra["t3_counter_accesses"] = facts
    out = ""
    for f in ("Extracted.v", "Instance.v"):
        rc, o2, e2, _ = vlib.sh(["coqc", "-Q", vlib.COQ, "MV", "-Q", d, "", os.path.join(d, f)], cwd=d, timeout=900)
        if rc != 0:
            odd = [a for a in facts["accesses"] if not (a["kind"] == "add1" and a["fn"] == "nextChildGuid")]
            odd += [c for c in facts["consumers"] if c["use"] == "other"]
            ctx.proof_errors.append(
                "T3: the accesses to actorContext.childGuid in the tree under test are not the ones of the machine MV.C07.LifeModel "
                "(single atomic add-and-fetch of 1 in nextChildGuid, each result naming one address): %s; creators of contexts: %s. "
                "The whole-life theorems do not apply to this source (for a store on the restart path see C07_counter_reset_on_restart_refuted). %s" %
                (json.dumps(odd), facts["creators"], (o2 + e2)[-400:].replace("\n", " ")))
            return
        out += o2
    bad = vlib.FORBIDDEN.search(vlib.strip_comments(open(os.path.join(d, "Extracted.v")).read() + open(os.path.join(d, "Instance.v")).read()))
    closed = len(re.findall(r"Closed under the global context", out))
    if bad or closed != len(names):
        ctx.proof_errors.append("T3: instance theorems not closed under the global context:\n" + out[-800:])
        return
    for n in names:
        ctx.theorems.append(n)
        ctx.axioms[n] = []
        ctx.discharged += 1


def check(ctx):
    ctx.trusted += TRUSTED
    try:
        bad = vlib.forbidden_scan(["Lib", "C07"])
    except TypeError:
        bad = vlib.forbidden_scan()
    if bad:
        ctx.proof_errors.append("forbidden constructs: %s" % bad[:5])
    if vlib.coq_make(ctx, ["Lib", "C07"]):
        vlib.coq_properties(ctx, "C07/Properties.v")
        t3(ctx)
    source_facts(ctx)
    # T1 first: the stress harness on the real system (monitors decide; Coq recomputes the allowed outcomes); the binary
    # writes two summaries: "ask" (stress) and "life" (scripts with restarts / re-creation, see harness/cmd/c07ask/life.go)
    b1 = vlib.go_build(ctx, "c07ask")
    vlib.run_harness(ctx, b1, "ask", timeout=1500)
    # T2: instrumented current source of the future process under the controlled scheduler
    b2 = vlib.t2_build(ctx, "fut", "future", FUT_SOURCES, "c07fut", rewrites=REWRITES)
    vlib.run_harness(ctx, b2, "fut", timeout=1500)
    if ctx.tier == "thorough":
        vlib.coqchk(ctx, ["MV.C07.Properties"])
    return vlib.finish(ctx, "make -C coq && coqc C07/Properties.v (Print Assumptions per theorem); go run harness/translate/c07guid && coqc Extracted.v Instance.v "
                            "(counter accesses of the tree under test = the machine's); read nextChildGuid of the tree under test; "
                            "go build harness/cmd/c07ask against the tree + run (T1); instrument + build current future.go (t2_build) + run (T2); "
                            "coqc <outcome-table and schedule-replay shards> (vm_compute)", "DESIGN.md §6 C07", search=vlib.default_search)


def replay(ctx, path):
    import json
    d = json.load(open(path))
    if d.get("sub") == "fut":
        b = vlib.t2_build(ctx, "fut", "future", FUT_SOURCES, "c07fut", rewrites=REWRITES)
        rc, out, err, _ = vlib.sh([b, "-replay", path], timeout=600)
        print(out.strip())
        if err.strip():
            print(err.strip())
        return rc
    return vlib.standard_replay(ctx, {"ask": "c07ask", "life": "c07ask"}, path)
