# C11 — cross-node messages arrive intact, once, in order; replies find their way back
import json
import os
import re
import vlib

T2_SOURCES = ["engine/prc/shared_stream_process.go"]
T2_REWRITES = {'"sync"': 'sync "verif/harness/shim/c11sync"',      # sync.RWMutex -> scheduler steps
               'go func() {': 'sync.Spawn(func() {',               # the sender goroutine becomes a managed thread
               '\t\t}()\n': '\t\t})\n'}
TRUSTED = [
    "hand-written models coq/C11/{Cut,Gate,Link}Model.v of engine/prc/{shared_stream_process,shared,resource_controller}.go — not translations; "
    "ties: T3 the batch limit is re-read from the source on every run and the cut/batching theorems are re-instantiated with it "
    "(translate/c11consts); T2 per-step replay in Coq of schedules executed on the instrumented CURRENT shared_stream_process.go "
    "(lib/vlib.t2_build, harness/shim/{tsched,atomic,c11sync}, harness/t2/c11gate: stubbed collaborators, fake stream); T1 the REAL code: "
    "two nodes over loopback gRPC (harness/cmd/c11link), flows judged by Go monitors and by the verified checker/link model in Coq",
    "sync/atomic sequentially consistent; sync.RWMutex = writer flag + reader count (no fairness assumed); gRPC: a stream is a FIFO that "
    "either delivers a message or fails; protobuf codec satisfies encode/decode round-trip (exercised on every T1 message, content compared)",
    "T1 explores real concurrency: schedules are whatever the Go runtime and the loopback stack produce in this run; the outage scenarios "
    "close/re-share prc.Shared directly (vivid.ActorSystem does not expose its Shared): vivid scenarios have no outage",
    "Go runtime, google.golang.org/grpc and protobuf as vendored by /repo; bin/check, lib/vlib.py, harness/vh",
]
MANIFEST = {
    "text": "Coq: the batch loop of the stream sender never loses/duplicates/reorders and respects the limit read from the code on every run "
            "(C11_cut_*, re-instantiated at the current sharedStreamBatchLimit); the per-peer sender gate (one step per shared-memory statement of "
            "shared_stream_process.go, unbounded packer threads, Send may fail at any time) has a single sender at a time, hands the stream exactly the "
            "packed order while it is up (a duplicate-free order-preserving sub-sequence whatever happens) and strands nothing at quiescence "
            "(C11_gate_*); a link with Break/Reopen delivers exactly once in order while up and never duplicates/reorders across outages; the envelope "
            "(sender, receiver, class, type, bytes) round-trips for any codec satisfying the round-trip law; a reply to the carried sender reaches the "
            "asker's registry entry; a reference cached before an outage delivers again (repaired code). On every run: schedules of the instrumented "
            "current source are replayed step by step against the gate machine, and two REAL nodes (prc.Shared and vivid.ActorSystem) exchange "
            "sequence-numbered protobuf payloads over loopback gRPC — concurrent senders both ways, bursts of 1..3000 (1023/1024/1025/2049), asks and "
            "futures, Close()/Share() cycles, a family 'payload sizes' (a few messages in the middle of a burst carry 100-900 KiB or 1.1-3 MiB, below "
            "gRPC's 4 MiB frame limit) and a family 'close with a long queue' (20000-60000 prepared messages of one flow handed over in one go, the "
            "sending node closes at once, 1-3 rounds: what arrives must be in order and once) — with monitors for loss, duplication, reordering, "
            "content, sender identity, replies and post-outage delivery.",
    "note": "Needs fixes/C11-stale-stream-reference.patch and fixes/C11-close-hang.patch (without them: VIOLATION link:reopen:stale-reference / "
            "link:close:hang). Open findings (checks/c11_findings.json): several live streams between two nodes (racing dials, or a re-dial while the "
            "old stream's tail is still delivered) reorder one flow — C11_order_across_parallel_streams_refuted; Close() can block sending Farewell. "
            "Trusted: Coq kernel+vm_compute; hand-written models tied per executed step (T2) and per observed flow (T1) only on the runs explored; "
            "atomics SC; RWMutex without fairness; gRPC stream = FIFO or failure; outages exercised at the prc level only.",
    "technique": "Coq proofs (list induction; token/lock-counting invariants over an unbounded-thread interleaving machine; link simulation) + constant "
                 "extraction + per-step schedule replay of the instrumented source + real two-node loopback runs checked by a verified checker",
}


def t3(ctx):
    """Tie T3: read the batch limit from the CURRENT source, emit Extracted.v + Instance.v, compile them."""
    d = os.path.join(ctx.scratch, "t3")
    os.makedirs(d, exist_ok=True)
    exe = os.path.join(ctx.scratch, "c11consts")
    rc, o, e, _ = vlib.sh(["go", "build", "-o", exe, os.path.join(vlib.VERIF, "translate", "c11consts", "main.go")],
                          cwd=d, env=vlib.GOENV, timeout=600)
    if rc != 0:
        raise vlib.CheckError("cannot build translate/c11consts:\n" + (o + e)[-2000:])
    rc, o, e, _ = vlib.sh([exe, "-repo", vlib.REPO, "-out", d], timeout=120)
    names = ["C11_cut_at_code_limit", "C11_batched_delivery_at_code_limit"]
    ctx.obligations += len(names)
    if rc != 0:
        ctx.proof_errors.append("T3: the batch limit cannot be read from %s/engine/prc as a positive integer constant: %s" % (vlib.REPO, (o + e)[-800:]))
        return
    ctx.extra["t3_batch_limit"] = json.loads(o.strip().splitlines()[-1])
    out = ""
    for f in ("Extracted.v", "Instance.v"):
        rc, o2, e2, _ = vlib.sh(["coqc", "-Q", vlib.COQ, "MV", "-Q", d, "", os.path.join(d, f)], cwd=d, timeout=900)
        if rc != 0:
            ctx.proof_errors.append("T3: %s does not compile against the current source (limit = %s):\n%s" %
                                    (f, ctx.extra["t3_batch_limit"].get("expr"), (o2 + e2)[-1500:]))
            return
        out += o2
    bad = vlib.FORBIDDEN.search(vlib.strip_comments(open(os.path.join(d, "Extracted.v")).read() + open(os.path.join(d, "Instance.v")).read()))
    closed = len(re.findall(r"Closed under the global context", out))
    if bad or closed != len(names):
        ctx.proof_errors.append("T3: instance theorems not closed under the global context:\n" + out[-800:])
        return
    for n in names:
        ctx.theorems.append(n)
        ctx.axioms[n] = []
        ctx.discharged += 1


def check(ctx):
    ctx.trusted += TRUSTED
    bad = vlib.forbidden_scan(["Lib", "C11"])
    if bad:
        ctx.proof_errors.append("forbidden constructs: %s" % bad[:5])
    if vlib.coq_make(ctx, ["Lib", "C11"]):
        vlib.coq_properties(ctx, "C11/Properties.v")
        t3(ctx)
    # T1 on the real code (loopback gRPC)
    b = vlib.go_build(ctx, "c11link")
    vlib.run_harness(ctx, b, "link", timeout=1500, kinds=["link:"])
    # T2 on the instrumented current source
    g = vlib.t2_build(ctx, "gate", "prc", T2_SOURCES, "c11gate", rewrites=T2_REWRITES)
    vlib.run_harness(ctx, g, "gate", timeout=1500, kinds=["gate:"])
    if ctx.tier == "thorough":
        vlib.coqchk(ctx, ["MV.C11.Properties"])
    return vlib.finish(ctx, "make -C coq && coqc C11/Properties.v (Print Assumptions); go run translate/c11consts && coqc Extracted.v Instance.v; "
                            "go build harness/cmd/c11link against the tree under test, run over loopback, coqc <link shards>; "
                            "instrument + build current shared_stream_process.go (t2_build), coqc <schedule-replay shards> (vm_compute)",
                       "DESIGN.md §6 C11", search=vlib.default_search)


def replay(ctx, path):
    d = json.load(open(path))
    if d.get("sub") == "gate":
        g = vlib.t2_build(ctx, "gate", "prc", T2_SOURCES, "c11gate", rewrites=T2_REWRITES)
        rc, out, err, _ = vlib.sh([g, "-replay", path], timeout=600)
        print(out.strip())
        if err.strip():
            print(err.strip())
        return rc
    return vlib.standard_replay(ctx, {"link": "c11link"}, path)
