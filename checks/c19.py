# C19 — calendar and period helpers agree with the civil calendar for every instant
import vlib

TRUSTED = [
    "hand-written model coq/C19/ChronoModel.v of toolkit/chrono/{moment.go,period.go} and of the parts of Go's package time they call "
    "(Date with its norm steps, AddDate, Truncate, Sub, wall-clock accessors; fixed-offset zones), tied by differential runs "
    "(harness/cmd/c19chrono) — not a translation",
    "Go harness + generators + monitors + reference day-count calendar (harness/cmd/c19chrono, harness/vh), bin/check, lib/vlib.py",
    "Go's package time and its embedded zone database (wall-clock oracle of the DST-zone monitors; New_York and Berlin are checked on the Go side only)",
    "Uint63 primitive integers only as decoder of large literals in generated case files (ChronoRun.W); no theorem depends on them",
]
HARNESSES = [{"pkg": "c19chrono", "sub": "chrono"}]
MANIFEST = {
    "text": "Machine-checked (Coq, no axioms) for every instant (any integer number of nanoseconds) and every fixed UTC offset: the day-count "
            "algorithms are the proleptic Gregorian calendar (both round trips for all days, successor rule); start/end of day and week land on "
            "the boundary of the day / Monday-based week that contains the instant (right weekday, 00:00:00 or 23:59:59, less than a day / week away); "
            "the relative week start is the latest requested weekday midnight not after the instant, shifted by whole weeks; the next moment is the "
            "earliest strictly-future instant with the requested wall clock (first scheduler delay in (0, 24 h]); same-day/week/month are equivalence "
            "relations that coincide with membership in the boundaries; periods are normalised, windows contain their anchor, overlap is symmetric and "
            "equals shared interior for positive-length periods; the StateLine container keeps its points in chronological order with distinct states for every "
            "history and GetStateByTime returns the state of the latest point not after the time. The model is compared with the Go code on every run: boundary-concentrated instants in five "
            "fixed zones output by output, all pairs of periods over 6-point lattices, and (thorough) every day of 1900..2299 x 5 times of day in three zones "
            "via a digest recomputed in Coq by an evaluator proved equal to the model. America/New_York and Europe/Berlin are checked by Go monitors that "
            "state the property directly (every day of the cycle x every weekday x week offset -3..3 in thorough).",
    "note": "The Coq statements cover fixed-offset zones only; zones with DST shifts are covered by the Go-side monitors with package time as wall-clock oracle "
            "(a repeated or skipped wall-clock time on a day means what time.Date resolves it to). The model follows the code repaired by "
            "fixes/C19-dst-calendar-arithmetic.patch (AddDate instead of adding 168 h; time.Date instead of moment.AddDate); theorem "
            "C19_fixed_offset_week_arithmetic shows the unrepaired code computes the same values in fixed-offset zones, so on the unrepaired tree only the "
            "DST monitors fire (GetRelativeStartOfWeek, NewPeriodWindowWeek, GetNextMoment). Not modelled: ToDuration*, StateLine triggers, the float-based "
            "Period.Days/Hours/Minutes/Seconds; Duration-valued results are proved while they fit an int64. Trusted: hand-written model, harness, monitors, "
            "reference calendar, Go's time package.",
    "technique": "Coq proofs over Z (lia + complete vm_compute sweep of the 400 years / 4800 months of one Gregorian era) + differential runs in Coq (vm_compute) + Go property monitors",
}


def check(ctx):
    return vlib.standard_check(ctx, ["C19"], "C19/Properties.v", HARNESSES, TRUSTED, "DESIGN.md §6 C19",
                               chk_modules=["MV.C19.Properties"])


def replay(ctx, path):
    return vlib.standard_replay(ctx, {"moment": "c19chrono", "period": "c19chrono", "stateline": "c19chrono", "dst": "c19chrono", "dsttab": "c19chrono", "sweep": "c19chrono"}, path)
