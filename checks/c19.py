# C19 — calendar and period helpers agree with the civil calendar for every instant
import vlib

TRUSTED = [
    "hand-written model coq/C19/ChronoModel.v of toolkit/chrono/{moment.go,period.go} and of the parts of Go's package time they call "
    "(Date with its norm steps, AddDate, Truncate, Sub, wall-clock accessors; fixed-offset zones), tied by differential runs "
    "(harness/cmd/c19chrono) — not a translation",
    "Go harness + generators + monitors + reference day-count calendar (harness/cmd/c19chrono, harness/vh), bin/check, lib/vlib.py",
    "hand-written model coq/C19/ZoneModel.v of zones as transition tables (Location.lookup as a scan of the sorted table, the zone part of time.Date, wall-clock readers, AddDate, "
    "the chrono helpers over a table), tied by differential runs on the tables of seven IANA zones extracted from package time with Time.ZoneBounds — not a translation",
    "Go's package time and its embedded zone database: the CONTENT of the tables (the IANA data itself, the TZ-string extension rule that package time applies after the last "
    "embedded transition — its pieces are extracted like any other but the rule is not modelled —, and the absence of leap seconds in Go) is taken from package time, not proved; "
    "package time is also the wall-clock oracle of the DST-zone monitors",
    "ZoneLit.v: Uint63 decoder of the printed tables (generated shards only)",
    "Uint63 primitive integers only as decoder of large literals in generated case files (ChronoRun.W); no theorem depends on them",
]
HARNESSES = [{"pkg": "c19chrono", "sub": "chrono"}]
MANIFEST = {
    "text": "Machine-checked (Coq, no axioms) for every instant (any integer number of nanoseconds) and every fixed UTC offset: the day-count "
            "algorithms are the proleptic Gregorian calendar (both round trips for all days, successor rule); start/end of day and week land on "
            "the boundary of the day / Monday-based week that contains the instant (right weekday, 00:00:00 or 23:59:59, less than a day / week away); "
            "the relative week start is the latest requested weekday midnight not after the instant, shifted by whole weeks; the next moment is the "
            "earliest strictly-future instant with the requested wall clock (first scheduler delay in (0, 24 h]); same-day/week/month are equivalence "
            "relations that coincide with membership in the boundaries; periods are normalised, windows contain their anchor, overlap is symmetric and "
            "equals shared interior for positive-length periods; the StateLine container keeps its points in chronological order with distinct states for every "
            "history and GetStateByTime returns the state of the latest point not after the time. The model is compared with the Go code on every run: boundary-concentrated instants in five "
            "fixed zones output by output, all pairs of periods over 6-point lattices, and (thorough) every day of 1900..2299 x 5 times of day in three zones "
            "via a digest recomputed in Coq by an evaluator proved equal to the model. Zones with offset changes are TRANSITION TABLES (round 12): proved for every well-formed table "
            "(offsets within B, consecutive transitions more than D >= 2B apart): Location.lookup returns the offset in force with start <= u < end; time.Date returns w - off(w - off(w)), an instant "
            "showing the requested wall clock whenever one exists (THE instant when the wall clock is regular) and, inside a gap, the wall clock shifted by the gap (which way is characterised); "
            "start/end of day have the instant's civil date, read 00:00:00 / 23:59:59, bracket the instant and are the exact day boundary whenever that wall clock exists exactly once "
            "(distance = time of day corrected by the offset change, < 24 h + 2B); over tables too (ZoneWeekProofs.v): same-day/week/month are equivalence relations for EVERY table and, "
            "with regular midnights, same day = equal civil dates = membership in [start of day, start of the next civil day) (a day of 24 h minus the offset change); start/end of week are 00:00:00 / 23:59:59 of "
            "the requested weekday of the Monday-based civil week (exact day boundary, distances < 7 x 24 h + 2B); the repaired relative week start is 00:00:00 of the latest requested weekday not after the instant "
            "in civil days, shifted by 7k civil days; the repaired week window is exactly the 7 civil days Monday..Sunday around its anchor (167 / 169 h in a transition week) and consecutive windows tile; the "
            "repaired next moment is strictly future, reads h:m:s, at most 24 h + 2B away and minimal — each under the stated decidable regularity hypotheses (the wall clocks involved exist exactly once), "
            "with examples on New_York / Berlin transition days; a table without transitions is the fixed-offset model (all z_ functions equal); the 168-hour code as written "
            "is refuted on the New_York table inside Coq. The table model is compared with the Go code and package time on every run on the tables of America/New_York, Europe/Berlin, "
            "Australia/Lord_Howe, America/Sao_Paulo, America/Havana, Asia/Kathmandu, Pacific/Apia extracted with Time.ZoneBounds (every helper output, time.Date in gaps and repeated hours, "
            "AddDate, lookup, zone_okb 18h 36h of each table, midnight_regular of each generated day), in addition to the Go monitors that state the property directly "
            "(every day of the cycle x every weekday x week offset -3..3 in thorough).",
    "note": "For zones with offset changes the week, relative-week, week-window, next-moment and same-day theorems carry regularity hypotheses (midnight_regular / wall_regular of the named days: today's midnight, "
            "the target day's, Monday's / next Monday's, now's clock a week earlier when the relative helper steps back, h:m:s today / on the landing day / the day before); where a wall clock involved is skipped or "
            "repeated nothing is proved (there the helpers are covered by the model/implementation correspondence on the seven real tables and by the Go monitors, "
            "where a repeated or skipped wall-clock time on a day means what time.Date resolves it to); in particular tomorrow's h:m:s in a gap is the open finding C19-next-moment-in-a-midnight-gap. Not proved: the zone database itself, the TZ-string extension rule, leap seconds (Go has none). "
            "Observations in zones whose DST starts at local midnight (Sao_Paulo, Havana, Kathmandu 1986, Apia 2010): on a day without 00:00:00 the week helpers inherit the 23:00 / 00:15 that time.Date "
            "substitutes, and GetNextMoment can return an instant that is not in the future (Havana, eve of the shift, time inside the skipped hour); the monitors skip and count these "
            "(distribution monitor_checks_skipped), the model reproduces them. The model follows the code repaired by "
            "fixes/C19-dst-calendar-arithmetic.patch (AddDate instead of adding 168 h; time.Date instead of moment.AddDate); theorem "
            "C19_fixed_offset_week_arithmetic shows the unrepaired code computes the same values in fixed-offset zones, so on the unrepaired tree only the "
            "DST monitors fire (GetRelativeStartOfWeek, NewPeriodWindowWeek, GetNextMoment). Not modelled: ToDuration*, StateLine triggers, the float-based "
            "Period.Days/Hours/Minutes/Seconds; Duration-valued results are proved while they fit an int64. Trusted: hand-written model, harness, monitors, "
            "reference calendar, Go's time package.",
    "technique": "Coq proofs over Z and over lists of transitions (induction on the table, lia + complete vm_compute sweep of the 400 years / 4800 months of one Gregorian era) + differential runs in Coq (vm_compute) + Go property monitors",
}


def check(ctx):
    return vlib.standard_check(ctx, ["C19"], "C19/Properties.v", HARNESSES, TRUSTED, "DESIGN.md §6 C19",
                               chk_modules=["MV.C19.Properties"])


def replay(ctx, path):
    return vlib.standard_replay(ctx, {"moment": "c19chrono", "period": "c19chrono", "stateline": "c19chrono", "dst": "c19chrono", "dsttab": "c19chrono", "sweep": "c19chrono"}, path)
