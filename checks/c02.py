# C02 — each message is handled exactly once in sender order, or becomes a dead letter (mailbox level here)
import c01

MANIFEST = {
    "text": "Theorems C02_conservation (pushed = popped ++ queued as lists, for both queues) and C02_no_stranded (when every sender, "
            "resumer, suspender and runner has finished, the system queue is empty and so is the user queue unless suspended: no lost "
            "wake-up) hold in every reachable state of the mailbox machine for any number of threads; tied to both mailbox files by "
            "per-step replay of instrumented schedules (same tie as C01), with monitors for stranded, lost, duplicated and reordered messages.",
    "note": "Mailbox level only so far (actor-level dead letters come with the kernel model). Liveness is the safety statement "
            "'quiescent => empty' plus assumed scheduler fairness. Same trusted base as C01.",
    "technique": "Coq proof (counter + poised-thread invariants, no-lost-wake-up) + per-step schedule replay of the instrumented source in Coq",
}


def check(ctx):
    return c01.check(ctx, prop_dir="C02", props="C02/Properties.v",
                     kinds=("mailbox:stranded", "mailbox:lost", "mailbox:duplicate", "mailbox:order"), design="DESIGN.md §6 C02")


def replay(ctx, path):
    return c01.replay(ctx, path)
