# C02 — each message is handled exactly once in sender order, or becomes a dead letter (mailbox level here)
import c01

MANIFEST = {
    "text": "Kernel/Reuse.v: the order of handled serials also holds ACROSS successive objects of one address (C02_handled_in_send_order_across_address_reuse: u1 < u2 with the same address => every serial handled by u1 is strictly below every serial handled by u2), an unregistered object receives nothing. Actor level: C02_kernel_conservation — for every role table, run and message serial of the kernel model, sends = handled + "
            "dead letters + still pending (nothing invented, nothing lost, across failure, restart, suspension, termination, address reuse), "
            "C02_kernel_exactly_once_per_receiver (the same flow equation per serial AND receiver address: a message sent once to t is at any time "
            "exactly one of pending / handled once / dead-lettered once; broadcast copies accounted per child), "
            "C02_handled_in_send_order (Kernel/Order.v: every send takes the next value of the system-wide serial counter; for every role table, run and actor object the serials it shows as handled, in handling order, never decrease — invariant: every mailbox sorted by serial and below the counter, C02_mailboxes_sorted_by_serial; relation \"queues only grow at the tail by messages numbered with current counter values\" through every kernel operation), C02_send_total (sending never blocks/crashes), C02_kernel_mailbox_order_step/_run (mailbox discipline from any state: a step only "
            "takes the head of an actor's in-flight+queued user messages — when that actor runs it — and appends at the tail; over a run "
            "seq' = skipn k seq ++ app, so queued messages keep their order across failure, suspension, restart); kernel tied to the real ActorSystem by lockstep replay with exactly-once / "
            "order monitors. Mailbox level: theorems C02_conservation (pushed = popped ++ queued as lists, for both queues) and C02_no_stranded (when every sender, "
            "resumer, suspender and runner has finished, the system queue is empty and so is the user queue unless suspended: no lost "
            "wake-up) hold in every reachable state of the mailbox machine for any number of threads; tied to both mailbox files by "
            "per-step replay of instrumented schedules (same tie as C01), with monitors for stranded, lost, duplicated and reordered messages. "
            "The mailbox machine treats each of its two queues as an atomic FIFO; both shipped mailboxes use queues.LFQueue, whose FIFO / "
            "exactly-once contract is C15's theorem about the Michael-Scott machine — its tie to the current toolkit/queues/lock_free.go "
            "(per-step schedule replay, monitors lfq:*) is re-run as part of this check. "
            "No model: the real-time stress family harness/cmd/c04esc (workers failing under Resume-always supervisors that decide on other goroutines, "
            "later serials queued behind every failure; monitors C02:esc:message-stranded, stranded-until-later-traffic, duplicate, order, "
            "dead-letter-while-alive) as search oracle. Likewise harness/cmd/c02term: 2-4 goroutines tell numbered messages to an actor while it is being terminated (immediately / gracefully, with or "
            "without a child): every message handled exactly once or reported exactly once as a dead letter (monitors C02:term:duplicate-handled, "
            "duplicate-dead-letter, handled-and-dead-letter, lost, send-blocks, send-panics).",
    "note": "That a script never reuses a serial for the same receiver (freshness of the harness's serial counter) is checked per run, not proved. Liveness is the safety statement "
            "'quiescent => empty' plus assumed scheduler fairness. Same trusted base as C01.",
    "technique": "Coq proof (counter + poised-thread invariants, no-lost-wake-up) + per-step schedule replay of the instrumented source in Coq",
}


def check(ctx):
    import vlib
    import kernel_common as K
    ctx.trusted += c01.TRUSTED + K.TRUSTED
    bad = vlib.forbidden_scan(["Lib", "C01", "C02", "Kernel"])
    if bad:
        ctx.proof_errors.append("forbidden constructs: %s" % bad[:5])
    if vlib.coq_make(ctx, ["Lib", "C01", "Kernel", "C02", "C15"]):
        vlib.coq_properties(ctx, "C02/Properties.v")
    # mailbox level: per-step replay of instrumented schedules (tie T2)
    b = vlib.t2_build(ctx, "mbox", "mailbox", c01.MBOX_SOURCES, "mailbox")
    vlib.run_harness(ctx, b, "mbox", kinds=["mailbox:stranded", "mailbox:lost", "mailbox:duplicate", "mailbox:order"])
    # the queue underneath: both shipped mailboxes keep their messages in queues.LFQueue (toolkit/queues/lock_free.go). The
    # mailbox machine treats a queue as an atomic FIFO; that contract is C15's theorem about the Michael-Scott machine
    # (MV.C15.LfqModel), whose tie to the current lock_free.go (T2, per-step schedule replay) is re-run here: a change of the
    # queue that loses, duplicates or reorders a message breaks C02 as much as a change of the mailbox
    import c15
    for (sub, pkg, sources, tdir, kind) in c15.T2:
        if sub == "lfq":
            q = vlib.t2_build(ctx, sub, pkg, sources, tdir)
            vlib.run_harness(ctx, q, sub, kinds=[kind])
    # actor level: lockstep replay of the real actor system against the kernel model (tie T1)
    k = vlib.go_build(ctx, "klock")
    vlib.run_harness(ctx, k, "klock", kinds=["C02:", "kernel:"])
    # real time, truly parallel: workers failing under Resume-always supervisors that decide on other goroutines, later
    # serials queued behind every failure (monitors only: stranded / duplicated / reordered / dead-lettered while alive)
    e = vlib.go_build(ctx, "c04esc")
    vlib.run_harness(ctx, e, "esc", coq=False, kinds=["C02:esc:"])
    # terminate under fire: goroutines telling numbered messages while the receiver is terminated — exactly one outcome each
    t = vlib.go_build(ctx, "c02term")
    vlib.run_harness(ctx, t, "term", coq=False, kinds=["C02:term:"])
    ctx.trusted.append("sub-harness 'term' (harness/cmd/c02term): search oracle only, no model — real ActorSystem in real time, GOMAXPROCS >= 4, a "
                       "recording dead-letter process; 5 s without progress counts as quiescent")
    ctx.trusted.append("sub-harness 'esc' (harness/cmd/c04esc): search oracle only, no model — real ActorSystem in real time, GOMAXPROCS >= 4; "
                       "1.5 s without progress counts as quiescent; the interleavings are those the Go runtime happens to produce")
    if ctx.tier == "thorough":
        vlib.coqchk(ctx, ["MV.C02.Properties"])
    return vlib.finish(ctx, "make -C coq && coqc C02/Properties.v (Print Assumptions); instrument+build current mailbox sources; build klock against "
                            "/repo; coqc <schedule-replay shards> <lockstep shards> (vm_compute)", "DESIGN.md §6 C02", search=vlib.default_search)


def replay(ctx, path):
    import json
    if json.load(open(path)).get("sub") == "lfq":
        import c15
        return c15.replay(ctx, path)
    if json.load(open(path)).get("sub") == "esc":
        import c04
        return c04.replay(ctx, path)
    if json.load(open(path)).get("sub") == "term":
        import vlib
        return vlib.standard_replay(ctx, {"term": "c02term"}, path)
    return c01.replay(ctx, path)
