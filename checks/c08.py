# C08 — actor timers fire inside the actor, as often as configured, and die with it
import vlib

TRUSTED = [
    "hand-written model coq/C08/SchedModel.v of toolkit/chrono/scheduler.go + scheduler_task.go over the contract of "
    "github.com/RussellLuo/timingwheel (ScheduleFunc / Timer.Stop; a timer with expiration E ms runs when the bucket "
    "trunc(E, tick) expires), tied by differential runs in virtual time (harness/cmd/c08sched) — not a translation",
    "Go harnesses + generators + monitors (harness/cmd/c08sched, harness/cmd/c08actor, harness/vh), bin/check, lib/vlib.py",
    "testing/synctest (go1.26.8): virtual clock, every goroutine of the system inside the bubble; the default ants dispatcher "
    "replaced by a goroutine dispatcher through the verif hook VerifSetDefaultDispatcher",
]
FINDING = "C08-stale-callback-after-restart"
MANIFEST = {"text": "", "note": "", "technique": ""}

_orig_go_build = vlib.go_build


def _go_build(ctx, pkg, **kw):
    # both harnesses are test binaries: testing/synctest needs *testing.T and go1.26.8
    kw["test"], kw["go"] = True, "go1.26.8"
    return _orig_go_build(ctx, pkg, **kw)


def harnesses():
    on = any(f.get("id") == FINDING for f in vlib.known_findings("C08"))
    return [{"pkg": "c08sched", "sub": "sched", "go": "go1.26.8"},
            {"pkg": "c08actor", "sub": "actor", "go": "go1.26.8", "args": ["-stalecb"] if on else []}]


HARNESSES = harnesses()


def check(ctx):
    vlib.go_build = _go_build
    return vlib.standard_check(ctx, ["C08"], "C08/Properties.v", harnesses(), TRUSTED, "DESIGN.md §6 C08",
                               chk_modules=["MV.C08.Properties"])


def replay(ctx, path):
    vlib.go_build = _go_build
    return vlib.standard_replay(ctx, {"sched": "c08sched", "actor": "c08actor"}, path)
