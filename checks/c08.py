# C08 — actor timers fire inside the actor, as often as configured, and die with it
import glob
import json
import os
import re
import shutil
import time

import vlib

TRUSTED = [
    "hand-written model coq/C08/SchedModel.v of toolkit/chrono/scheduler.go + scheduler_task.go (REPAIRED by "
    "fixes/C08-timer-handle.patch; the as-shipped variant is the same model with s_fixed = false) over the contract of "
    "github.com/RussellLuo/timingwheel (ScheduleFunc / Timer.Stop; a timer with expiration E ms runs when the bucket "
    "trunc(E, tick) expires; sequential: Stop always finds the timer), tied by differential runs in virtual time "
    "(harness/cmd/c08sched) — not a translation; cron restricted to 'every k seconds' with ticks that divide 1000 ms",
    "hand-written model coq/C08/ActorModel.v of the scheduler part of engine/vivid/actor_context.go (one actor, no children; "
    "callbacks = queued system messages, idle deadline, expiry, restart, termination), tied ONLY by differential runs on a real "
    "ActorSystem (harness/cmd/c08actor); compared up to the first wheel bucket that a deadline timer shares with another timer",
    "Go harnesses + generators + monitors (harness/cmd/c08sched, harness/cmd/c08actor, harness/vh), bin/check, lib/vlib.py",
    "testing/synctest (go1.26.8): virtual clock, every goroutine of the system inside the bubble; the default ants dispatcher "
    "replaced by a goroutine dispatcher through the verif hook VerifSetDefaultDispatcher",
    "hand-written machine coq/C08/InitModel.v of the lazy creation of the per-context scheduler (initScheduler and its callers in "
    "engine/vivid/actor_context.go: sync.Once.Do statement by statement — done.Load, m.Lock, done.Load, create, store, done.Store, m.Unlock — "
    "then load of the field and registration; any number of concurrent callers), PARAMETERISED by the initialisation discipline (once / "
    "unguarded lazy); tie T3 (harness/translate/c08init, go/ast, syntactic, package engine/vivid of the tree under test): every assignment "
    "to the field of actorContext of type *chrono.Scheduler and where it sits (inside the function handed to Do of a sync.Once field of the "
    "context — also through a method referenced only from there —, under a nil test, elsewhere), every other use of the sync.Once fields, "
    "every use of the scheduler field and its protection (ensuring call before it / nil check), the callers through which the creation is "
    "reached incl. the spawner's call on the child's context in ActorOf are extracted to Coq and InitInstance.v proves by vm_compute that "
    "they denote the once machine — reflection, unsafe, whole-struct copies of an actorContext, aliases of the field and helpers of other "
    "packages are not seen; sync.Mutex a blocking boolean, sync/atomic sequentially consistent",
    "tie T1 sub-harness 'init' (harness/cmd/c08init): search oracle only — real ActorSystem in real time with GOMAXPROCS >= 4, thousands of "
    "actors WithExpireDuration whose OnLaunch registers a repeating task while the spawner arms the expiry on the same context; StopTask / "
    "re-registration, per-actor timestamps, 200 ms margin; the interleavings are those the Go runtime happens to produce",
]
FINDING_STALE = "C08-stale-callback-after-restart"
FINDING_DST = "C08-daymoment-dst-drift"
MANIFEST = {
    "text": "Proved in Coq about an executable model of chrono.Scheduler over the timing-wheel contract (repaired code: the task keeps the "
            "wheel's handle), for every tick, delay, interval, repeat count (also forever and cron) and every history of register / "
            "re-register / unregister / clear / close operations, including callbacks that unregister or re-register their own task: no "
            "operation and no such callback crashes; a one-shot runs at most once and a task repeated N times at most N times whatever "
            "else happens, exactly once / exactly N times when its name is left alone until its last due instant has passed; the k-th "
            "run happens in the wheel bucket of registration instant + max(delay, tick) + (k-1) intervals (in ms), i.e. less than one "
            "tick + 1 ms before that instant and never after it in model time; re-registering a name kills the task that held it and "
            "binds the name to the new one; an unregistered task never runs again (never at all if it had not run yet); Clear and Close "
            "cancel every task; nothing is run by a timer after Close; in the actor-level model no callback is executed once the actor has terminated "
            "(whatever is still queued is dropped), its wheel is stopped, and the idle-deadline / expiry timers are due one idle deadline "
            "after the latest turn resp. not before expireTime. As shipped the property is refuted (C08_no_crash_as_shipped_refuted: "
            "unregistering a pending repeated task dereferences the nil handle). Each run replays ~2 500 scheduler histories (40 000 "
            "thorough) and ~1 500 histories of a real actor on a real ActorSystem (20 000 thorough) in virtual time (testing/synctest) "
            "through the Go code and the models inside Coq and compares the executed callbacks (instant in ms, task, ordinal), the "
            "results of the operations and the instant of termination exactly; Go-side monitors restate the property: callback turns "
            "never overlap a handler, counts, not early / not late, nothing after a cancellation that came before the due instant, "
            "nothing after the owner's OnTerminated, restart and termination complete, the parent is notified, Shutdown returns "
            "(virtual watchdog), idle deadline and expiry terminate only when due. "
            "Creation of the per-context scheduler (InitModel: every registration is 'ensure the scheduler; load the field; register', and it "
            "is not confined to the actor's goroutine — ActorOf arms the expiry on the child's context from the spawner's goroutine after "
            "OnLaunch has been posted): for any number of concurrent callers and every interleaving of their atomic steps (sync.Once "
            "statement by statement) at most one scheduler object is ever created, nobody dereferences a nil field, every task registered "
            "sits in the object the context holds and the field never changes once stored — so StopTask, re-registration, Clear on restart "
            "and Close on termination reach every task —, every caller registers exactly once and nobody waits for ever; for the unguarded "
            "lazy initialisation ('if scheduler == nil { scheduler = new }') the refuting schedule is proved: two goroutines, two "
            "schedulers, the task registered in the first is orphaned for ever. The discipline of the tree under test is extracted on every "
            "run (go/ast: every assignment of the field, the sync.Once fields and their uses, every use of the field and its protection, "
            "the callers incl. the spawner's) and proved by vm_compute to be the once machine; a real-time, truly parallel stress family "
            "(~36 000 spawns per run, 5x thorough; a task that still fires 200 ms after its own StopTask / after its name was registered "
            "again) is the search oracle on every run and, at thorough volume under fresh seeds, the failing-input search when that tie breaks.",
    "note": "needs fixes/C08-timer-handle.patch (one line: task.timer = s.wheel.ScheduleFunc(...)): on the unpatched tree StopTask / "
            "re-register / Clear / Close on a pending repeating, forever or cron task panic, an actor that owns one cannot restart and "
            "its termination never reaches its parent, so Shutdown hangs; the check prints VIOLATION with replay files. 'Not early' holds "
            "only up to the wheel's granularity (C08_oneshot_not_early_strict_refuted: a 25 ms one-shot can run 18.5 ms after its "
            "registration on a 10 ms wheel); wall-clock drift is outside the model (its clock is the wheel's). The actor-level model "
            "(coq/C08/ActorModel.v: callbacks as queued turns, idle deadline, expiry, restart, termination; one actor, no children) is "
            "tied by differential runs; three theorems are proved about it (no callback runs after the actor has terminated and it stays "
            "terminated; a terminated actor's wheel is stopped; in every reachable state the pending idle timer expires one idle deadline "
            "after the end of the latest turn and the pending expiry timer not before expireTime); 'callbacks are turns' is structural in "
            "the model and checked by the overlap monitor; histories in which a deadline timer shares its wheel bucket "
            "with another timer are compared up to that bucket only (about a quarter of the generated actor histories). Two open "
            "findings (callbacks of the previous incarnation run after a restart; day-moment tasks drift by an hour across "
            "daylight-saving changes; texts in checks/c08_findings.json, listed in known_findings.json) are reproduced on every run. Trusted: the hand-written models (tied by "
            "differential runs, not translations), the timing-wheel contract as modelled (sequential: Stop always finds the timer), the "
            "harnesses, synctest's virtual clock, the verif hook that replaces the default dispatcher. The scheduler-creation tie (c08init) is "
            "syntactic: it classifies assignments by their position relative to <once>.Do(...) and nil tests and inlines one level of "
            "methods referenced only from the Do argument; creation through reflection, unsafe, a copied actorContext or a helper of another "
            "package is not seen (the stress family 'init' is the safety net: it needs real parallelism, ~0.5-1 % of the spawns hit the "
            "window on 16 cores when the guard is missing); the lock-step and synctest harnesses cannot see this class at all.",
    "technique": "Coq proof (instance-wise invariants + transition summaries composed over histories, binary-fuel iteration) + "
                 "differential runs in virtual time (testing/synctest) on chrono.Scheduler and on a real ActorSystem + Go-side monitors + "
                 "atomic-step interleaving machine of the scheduler's lazy creation (invariant over every schedule, refuting schedule for the "
                 "unguarded variant) tied by a go/ast translator whose facts are proved to denote the machine by vm_compute on every run + "
                 "real-time parallel stress family as search oracle",
}

_orig_go_build = vlib.go_build


def _go_build(ctx, pkg, **kw):
    # the two differential harnesses are test binaries: testing/synctest needs *testing.T and go1.26.8;
    # c08init (real time, real parallelism) and the translator are plain programs
    if pkg in ("c08sched", "c08actor"):
        kw["test"], kw["go"] = True, "go1.26.8"
    return _orig_go_build(ctx, pkg, **kw)


def harnesses():
    # the two streams that reproduce the proposed findings run once those findings are listed as open in known_findings.json
    # (then every run reports them as KNOWN-FINDING with a reproduction count)
    ids = {f.get("id") for f in vlib.known_findings("C08")}
    return [{"pkg": "c08sched", "sub": "sched", "go": "go1.26.8", "args": ["-dst"] if FINDING_DST in ids else []},
            {"pkg": "c08actor", "sub": "actor", "go": "go1.26.8", "args": ["-stalecb"] if FINDING_STALE in ids else []},
            {"pkg": "c08init", "sub": "init", "coq": False}]


HARNESSES = harnesses()


T3_NAMES = ["C08_scheduler_init_source_facts", "C08_scheduler_init_of_this_source"]


def t3_init(ctx):
    """Tie T3: extract the initialisation discipline of the per-context scheduler from the CURRENT engine/vivid, emit
    InitExtracted.v + InitInstance.v, compile them (the instance theorem holds iff the discipline is the once machine's)."""
    ctx.obligations += len(T3_NAMES)
    if not os.path.exists(os.path.join(vlib.COQ, "C08", "InitProofs.vo")):
        ctx.proof_errors.append("T3 (scheduler creation): coq/C08/InitProofs.vo is not built")
        return
    d = os.path.join(ctx.scratch, "t3init")
    os.makedirs(d, exist_ok=True)
    try:
        exe = _orig_go_build(ctx, "./translate/c08init", name="c08init_translate")
    except vlib.CheckError as e:
        ctx.proof_errors.append("T3: cannot build harness/translate/c08init: %s" % str(e)[-800:])
        return
    rc, o, e, _ = vlib.sh([exe, "-repo", vlib.REPO, "-out", d], timeout=120)
    if rc != 0:
        ctx.extra["scheduler_init_tie"] = "broken"
        ctx.proof_errors.append("T3: the scheduler field of actorContext and its assignments cannot be read from %s/engine/vivid: %s" % (vlib.REPO, (o + e)[-800:]))
        return
    facts = json.loads(o.strip().splitlines()[-1])
    ctx.extra["t3_scheduler_init"] = facts
    out = ""
    for f in ("InitExtracted.v", "InitInstance.v"):
        rc, o2, e2, _ = vlib.sh(["coqc", "-Q", vlib.COQ, "MV", "-Q", d, "", os.path.join(d, f)], cwd=d, timeout=900)
        if rc != 0:
            ctx.extra["scheduler_init_tie"] = "broken"
            ws = ["%s %s [%s]%s: %s" % (w["fn"], w["pos"], w["site"], " = nil" if w["nil"] else "", w["text"]) for w in facts.get("writes") or []]
            bad_users = ["%s %s [%s]: %s" % (u["fn"], u["pos"], u["guard"], u["text"]) for u in facts.get("users") or []
                         if u["guard"] == "bare" or (u["guard"] == "nil-checked" and u["meth"].startswith("Register"))]
            foreign = ["%s (%s) calls %s on the context it created at %s%s" % (x["fn"], x["pos"], x["callee"], x["bound_at"],
                       ", after OnLaunch was posted to it (%s)" % x["onlaunch_posted_at"] if x["onlaunch_posted_before"] else "")
                       for x in facts.get("foreign") or []]
            witness = ""
            if facts.get("discipline") == "lazy":
                witness = (" This is the machine [init_state DLazy]: C08_scheduler_lazy_init_orphans_task_refuted is the refuting schedule (two "
                           "goroutines find the field nil, each creates a scheduler, the second store overwrites the first: the task registered in "
                           "the first scheduler is orphaned — StopTask cannot find it, re-registering its name does not replace it, it survives "
                           "restart and termination).")
                if foreign:
                    witness += " The two goroutines exist in this source: %s." % "; ".join(foreign)
            ctx.proof_errors.append(
                "T3: the creation of the per-context scheduler in the tree under test is not the once-guarded one the theorems "
                "C08_scheduler_created_once_no_task_orphaned / _field_stable / _every_registration_lands are about (every assignment of "
                "actorContext.%s inside the function handed to Do of one sync.Once field of the context, that field used for nothing else, every "
                "registration preceded by the ensuring call): extracted discipline = %s; assignments: %s; sync.Once fields: %s, other uses of "
                "them: %s; unprotected uses: %s; callers of the creation: %s; callers of setExpireDuration: %s.%s %s" %
                (facts.get("field"), facts.get("discipline"), ws, facts.get("once_fields"), facts.get("once_misuse"), bad_users,
                 facts.get("ensure_callers"), facts.get("expire_callers"), witness, (o2 + e2)[-300:].replace("\n", " ")))
            return
        out += o2
    bad = vlib.FORBIDDEN.search(vlib.strip_comments(open(os.path.join(d, "InitExtracted.v")).read() + open(os.path.join(d, "InitInstance.v")).read()))
    closed = len(re.findall(r"Closed under the global context", out))
    if bad or closed != len(T3_NAMES):
        ctx.extra["scheduler_init_tie"] = "broken"
        ctx.proof_errors.append("T3 (scheduler creation): instance theorems not closed under the global context:\n" + out[-800:])
        return
    ctx.extra["scheduler_init_tie"] = "ok"
    for n in T3_NAMES:
        ctx.theorems.append(n)
        ctx.axioms[n] = []
        ctx.discharged += 1


_orig_default_search = vlib.default_search


def init_search(ctx, budget_s=None):
    """Failing-input search. When the scheduler-creation tie is broken the model has the refuting schedule (two goroutines inside the
    unguarded creation): look for it on the implementation first — the stress family of c08init at thorough volume under fresh seeds —
    then fall back to the generic search over every sub-harness."""
    t0 = time.time()
    binary = next((h[0] for h in ctx.harnesses if h[1] == "init"), None)
    if ctx.extra.get("scheduler_init_tie") == "broken" and binary:
        budget = budget_s or (60 if ctx.tier == "quick" else 300)
        k = spawns = 0
        while time.time() - t0 < budget:
            k += 1
            outdir = os.path.join(ctx.scratch, "search_init_%d" % k)
            os.makedirs(outdir, exist_ok=True)
            seed = ctx.seed + 104729 * k
            vlib.sh([binary, "-out", outdir, "-seed", str(seed), "-tier", "thorough", "-nocoq"], timeout=max(60, budget - (time.time() - t0) + 120))
            for sp in glob.glob(os.path.join(outdir, "*_summary.json")):
                s = json.load(open(sp))
                spawns += 1000 * ((s.get("distribution") or {}).get("volume_thousands") or {}).get("actors_spawned", 0)
                for v in s.get("violations") or []:
                    if not vlib.match_known(ctx.prop, v):
                        v["search"] = {"seed": seed, "tier": "thorough", "family": "lazy-init", "spawns_tried_about": spawns}
                        return v
            shutil.rmtree(outdir, ignore_errors=True)
        ctx.extra["init_search"] = {"spawns_tried_about": spawns, "wall_s": round(time.time() - t0, 1), "found": False}
    return _orig_default_search(ctx, budget_s)


def check(ctx):
    vlib.go_build = _go_build
    vlib.default_search = init_search
    try:
        return vlib.standard_check(ctx, ["C08"], "C08/Properties.v", harnesses(), TRUSTED, "DESIGN.md §6 C08",
                                   checker_extra="; go run harness/translate/c08init && coqc InitExtracted.v InitInstance.v (initialisation discipline of "
                                                 "the per-context scheduler in the tree under test = the once machine); harness/cmd/c08init: stress "
                                                 "family in real time (monitors only)",
                                   chk_modules=["MV.C08.Properties"], pre=t3_init)
    finally:
        vlib.default_search = _orig_default_search


def replay(ctx, path):
    vlib.go_build = _go_build
    return vlib.standard_replay(ctx, {"sched": "c08sched", "actor": "c08actor", "init": "c08init"}, path)
