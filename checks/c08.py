# C08 — actor timers fire inside the actor, as often as configured, and die with it
import vlib

TRUSTED = [
    "hand-written model coq/C08/SchedModel.v of toolkit/chrono/scheduler.go + scheduler_task.go (REPAIRED by "
    "fixes/C08-timer-handle.patch; the as-shipped variant is the same model with s_fixed = false) over the contract of "
    "github.com/RussellLuo/timingwheel (ScheduleFunc / Timer.Stop; a timer with expiration E ms runs when the bucket "
    "trunc(E, tick) expires; sequential: Stop always finds the timer), tied by differential runs in virtual time "
    "(harness/cmd/c08sched) — not a translation; cron restricted to 'every k seconds' with ticks that divide 1000 ms",
    "hand-written model coq/C08/ActorModel.v of the scheduler part of engine/vivid/actor_context.go (one actor, no children; "
    "callbacks = queued system messages, idle deadline, expiry, restart, termination), tied ONLY by differential runs on a real "
    "ActorSystem (harness/cmd/c08actor); compared up to the first wheel bucket that a deadline timer shares with another timer",
    "Go harnesses + generators + monitors (harness/cmd/c08sched, harness/cmd/c08actor, harness/vh), bin/check, lib/vlib.py",
    "testing/synctest (go1.26.8): virtual clock, every goroutine of the system inside the bubble; the default ants dispatcher "
    "replaced by a goroutine dispatcher through the verif hook VerifSetDefaultDispatcher",
]
FINDING_STALE = "C08-stale-callback-after-restart"
FINDING_DST = "C08-daymoment-dst-drift"
MANIFEST = {
    "text": "Proved in Coq about an executable model of chrono.Scheduler over the timing-wheel contract (repaired code: the task keeps the "
            "wheel's handle), for every tick, delay, interval, repeat count (also forever and cron) and every history of register / "
            "re-register / unregister / clear / close operations, including callbacks that unregister or re-register their own task: no "
            "operation and no such callback crashes; a one-shot runs at most once and a task repeated N times at most N times whatever "
            "else happens, exactly once / exactly N times when its name is left alone until its last due instant has passed; the k-th "
            "run happens in the wheel bucket of registration instant + max(delay, tick) + (k-1) intervals (in ms), i.e. less than one "
            "tick + 1 ms before that instant and never after it in model time; re-registering a name kills the task that held it and "
            "binds the name to the new one; an unregistered task never runs again (never at all if it had not run yet); Clear and Close "
            "cancel every task; nothing is run by a timer after Close; in the actor-level model no callback is executed once the actor has terminated "
            "(whatever is still queued is dropped), its wheel is stopped, and the idle-deadline / expiry timers are due one idle deadline "
            "after the latest turn resp. not before expireTime. As shipped the property is refuted (C08_no_crash_as_shipped_refuted: "
            "unregistering a pending repeated task dereferences the nil handle). Each run replays ~2 500 scheduler histories (40 000 "
            "thorough) and ~1 500 histories of a real actor on a real ActorSystem (20 000 thorough) in virtual time (testing/synctest) "
            "through the Go code and the models inside Coq and compares the executed callbacks (instant in ms, task, ordinal), the "
            "results of the operations and the instant of termination exactly; Go-side monitors restate the property: callback turns "
            "never overlap a handler, counts, not early / not late, nothing after a cancellation that came before the due instant, "
            "nothing after the owner's OnTerminated, restart and termination complete, the parent is notified, Shutdown returns "
            "(virtual watchdog), idle deadline and expiry terminate only when due.",
    "note": "needs fixes/C08-timer-handle.patch (one line: task.timer = s.wheel.ScheduleFunc(...)): on the unpatched tree StopTask / "
            "re-register / Clear / Close on a pending repeating, forever or cron task panic, an actor that owns one cannot restart and "
            "its termination never reaches its parent, so Shutdown hangs; the check prints VIOLATION with replay files. 'Not early' holds "
            "only up to the wheel's granularity (C08_oneshot_not_early_strict_refuted: a 25 ms one-shot can run 18.5 ms after its "
            "registration on a 10 ms wheel); wall-clock drift is outside the model (its clock is the wheel's). The actor-level model "
            "(coq/C08/ActorModel.v: callbacks as queued turns, idle deadline, expiry, restart, termination; one actor, no children) is "
            "tied by differential runs; three theorems are proved about it (no callback runs after the actor has terminated and it stays "
            "terminated; a terminated actor's wheel is stopped; in every reachable state the pending idle timer expires one idle deadline "
            "after the end of the latest turn and the pending expiry timer not before expireTime); 'callbacks are turns' is structural in "
            "the model and checked by the overlap monitor; histories in which a deadline timer shares its wheel bucket "
            "with another timer are compared up to that bucket only (about a quarter of the generated actor histories). Two open "
            "findings (callbacks of the previous incarnation run after a restart; day-moment tasks drift by an hour across "
            "daylight-saving changes; texts in checks/c08_findings.json, listed in known_findings.json) are reproduced on every run. Trusted: the hand-written models (tied by "
            "differential runs, not translations), the timing-wheel contract as modelled (sequential: Stop always finds the timer), the "
            "harnesses, synctest's virtual clock, the verif hook that replaces the default dispatcher.",
    "technique": "Coq proof (instance-wise invariants + transition summaries composed over histories, binary-fuel iteration) + "
                 "differential runs in virtual time (testing/synctest) on chrono.Scheduler and on a real ActorSystem + Go-side monitors",
}

_orig_go_build = vlib.go_build


def _go_build(ctx, pkg, **kw):
    # both harnesses are test binaries: testing/synctest needs *testing.T and go1.26.8
    kw["test"], kw["go"] = True, "go1.26.8"
    return _orig_go_build(ctx, pkg, **kw)


def harnesses():
    # the two streams that reproduce the proposed findings run once those findings are listed as open in known_findings.json
    # (then every run reports them as KNOWN-FINDING with a reproduction count)
    ids = {f.get("id") for f in vlib.known_findings("C08")}
    return [{"pkg": "c08sched", "sub": "sched", "go": "go1.26.8", "args": ["-dst"] if FINDING_DST in ids else []},
            {"pkg": "c08actor", "sub": "actor", "go": "go1.26.8", "args": ["-stalecb"] if FINDING_STALE in ids else []}]


HARNESSES = harnesses()


def check(ctx):
    vlib.go_build = _go_build
    return vlib.standard_check(ctx, ["C08"], "C08/Properties.v", harnesses(), TRUSTED, "DESIGN.md §6 C08",
                               chk_modules=["MV.C08.Properties"])


def replay(ctx, path):
    vlib.go_build = _go_build
    return vlib.standard_replay(ctx, {"sched": "c08sched", "actor": "c08actor"}, path)
