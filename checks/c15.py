# C15 — queues, ring buffers and unbounded channels are loss-free FIFOs
import vlib

TRUSTED = [
    "hand-written model coq/C15/RingModel.v of toolkit/buffer/ring.go, tied by differential runs (harness/cmd/c15ring) — not a translation",
    "hand-written model coq/C15/BacklogModel.v of toolkit/buffer/unbounded.go and toolkit/channels/unbounded_backlog.go (sequential use, "
    "non-blocking receives), tied by differential runs on both implementations (harness/cmd/c15backlog)",
    "hand-written machine coq/C15/LfqModel.v of toolkit/queues/lock_free.go (one step per atomic load/CAS), tied by per-step replay of "
    "schedules executed on the instrumented CURRENT source (tie T2: lib/vlib.t2_build, harness/shim/{tsched,atomic}, harness/t2/c15lfq); "
    "sync/atomic sequentially consistent; nodes never reused while referenced (GC) => no ABA",
    "Go harnesses + generators + monitors (harness/cmd/c15*, harness/t2/c15*, harness/vh), bin/check, lib/vlib.py",
    "Go runtime, slices/copy/channel semantics; the controlled scheduler explores interleavings of atomic operations, not compiler/CPU "
    "reorderings below sync/atomic",
]
HARNESSES = [{"pkg": "c15ring", "sub": "ring"}, {"pkg": "c15backlog", "sub": "backlog"}]
T2 = [  # (sub, package, sources, template dir, monitor kind prefix)
    ("lfq", "queues", ["toolkit/queues/lock_free.go"], "c15lfq", "lfq:"),
]
MANIFEST = {
    "text": "TODO",
    "note": "TODO",
    "technique": "TODO",
}


def t2_parts(ctx):
    for (sub, pkg, sources, tdir, kind) in T2:
        b = vlib.t2_build(ctx, sub, pkg, sources, tdir)
        vlib.run_harness(ctx, b, sub, kinds=[kind])


def check(ctx):
    return vlib.standard_check(ctx, ["C15"], "C15/Properties.v", HARNESSES, TRUSTED, "DESIGN.md §6 C15",
                               checker_extra="; instrument + build current toolkit/queues sources (t2_build) and replay their schedules in Coq",
                               chk_modules=["MV.C15.Properties"], pre=t2_parts)


def replay(ctx, path):
    import json
    sub = json.load(open(path)).get("sub")
    for (s, pkg, sources, tdir, kind) in T2:
        if s == sub:
            b = vlib.t2_build(ctx, s, pkg, sources, tdir)
            rc, out, err, _ = vlib.sh([b, "-replay", path], timeout=600)
            print(out.strip())
            if err.strip():
                print(err.strip())
            return rc
    return vlib.standard_replay(ctx, {h["sub"]: h["pkg"] for h in HARNESSES}, path)
