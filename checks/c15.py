# C15 — queues, ring buffers and unbounded channels are loss-free FIFOs
import json
import vlib

TRUSTED = [
    "hand-written model coq/C15/RingModel.v of toolkit/buffer/ring.go, tied by differential runs (harness/cmd/c15ring) — not a translation",
    "Go harness + generators + FIFO monitor (harness/cmd/c15ring, harness/vh), bin/check, lib/vlib.py",
    "Go runtime, slices/copy semantics",
]


def check(ctx):
    ctx.trusted += TRUSTED
    bad = vlib.forbidden_scan()
    if bad:
        ctx.proof_errors.append("forbidden constructs: %s" % bad[:5])
    if vlib.coq_make(ctx):
        vlib.coq_properties(ctx, "C15/Properties.v")
    b = vlib.go_build(ctx, "c15ring")
    vlib.run_harness(ctx, b, "ring")
    if ctx.tier == "thorough":
        vlib.coqchk(ctx, ["MV.C15.Properties"])
    return vlib.finish(ctx, "make -C coq && coqc -Q coq MV coq/C15/Properties.v (Print Assumptions per theorem); "
                            "go build harness/cmd/c15ring against /repo; coqc <cases shards> (vm_compute)", "DESIGN.md §6 C15")


def replay(ctx, path):
    b = vlib.go_build(ctx, "c15ring")
    d = json.load(open(path))
    rc, out, err, _ = vlib.sh([b, "-replay", path])
    print(out.strip())
    print(err.strip())
    return rc
