# C15 — queues, ring buffers and unbounded channels are loss-free FIFOs
import vlib

TRUSTED = [
    "hand-written model coq/C15/RingModel.v of toolkit/buffer/ring.go, tied by differential runs (harness/cmd/c15ring) — not a translation",
    "hand-written model coq/C15/BacklogModel.v of toolkit/buffer/unbounded.go and toolkit/channels/unbounded_backlog.go (sequential use, "
    "non-blocking receives; Close discards the backlog by design), tied by differential runs on both implementations (harness/cmd/c15backlog)",
    "hand-written machines coq/C15/LfqModel.v (toolkit/queues/lock_free.go) and coq/C15/MpscModel.v (toolkit/queues/mpsc.go), one step per "
    "atomic operation, tied by per-step replay in Coq of schedules executed on the instrumented CURRENT source (tie T2: lib/vlib.t2_build, "
    "harness/shim/{tsched,atomic}, harness/t2/c15lfq, harness/t2/c15mpsc); sync/atomic sequentially consistent; nodes never reused while "
    "referenced (GC) => no ABA; MPSC: single consumer (documented contract), its plain accesses are consumer-private",
    "hand-written machines coq/C15/RuPumpModel.v (toolkit/buffer/ring_unbounded.go, REPAIRED by fixes/C15-ringunbounded-close.patch) and "
    "coq/C15/UrPumpModel.v (toolkit/channels/unbounded_ring.go, REPAIRED by fixes/C15-unboundedring-cancel.patch): mutex/RWMutex/cond/channel "
    "as blocking steps, Ring abstracted to its FIFO contents (C15_ring_refines_fifo); tied ONLY by observable traces (received sequence, "
    "closed flag, accepted flags) of uninstrumented stress runs through the public API (harness/cmd/c15rupump, c15urpump) — NOT replayed step by step; "
    "RWMutex writer preference not modelled (machine has more interleavings)",
    "Go harnesses + generators + monitors (harness/cmd/c15*, harness/t2/c15*, harness/vh), bin/check, lib/vlib.py",
    "Go runtime, slices/copy/channel/sync semantics; the controlled scheduler explores interleavings of atomic operations, not compiler/CPU "
    "reorderings below sync/atomic; stress runs depend on the Go scheduler for interleaving coverage",
]
HARNESSES = [{"pkg": "c15ring", "sub": "ring"}, {"pkg": "c15backlog", "sub": "backlog"}, {"pkg": "c15rupump", "sub": "rupump"},
             {"pkg": "c15urpump", "sub": "urpump"}]
T2 = [  # (sub, package, sources, template dir, monitor kind prefix)
    ("lfq", "queues", ["toolkit/queues/lock_free.go"], "c15lfq", "lfq:"),
    ("mpsc", "queues", ["toolkit/queues/mpsc.go"], "c15mpsc", "mpsc:"),
]
MANIFEST = {
    "text": "Coq theorems for every queue-like container of the toolkit. Ring (ring.go): C15_ring_refines_fifo — for every capacity and every "
            "sequence of write/read/read-n/read-all/peek/len/cap/reset the outputs equal a list FIFO's. Unbounded / UnboundedBacklog: "
            "C15_backlog_fifo (received ++ held = accepted for every op sequence), C15_backlog_no_loss_under_protocol / _drain_under_protocol "
            "(Load after each Get => nothing stranded, n Get;Load rounds return the held values in order), C15_backlog_closed_reports. "
            "LFQueue (Michael-Scott, lock_free.go; interleaving machine with one step per atomic load/CAS, any number of producers and consumers, "
            "every schedule): C15_ms_push_linearizes / C15_ms_pop_linearizes (the successful CAS on tail.next appends exactly the pushed value, the "
            "successful CAS on head removes exactly the first element and that is what Pop returns), C15_ms_other_steps_keep_queue, "
            "C15_ms_nil_means_was_empty, C15_ms_fifo_exactly_once (pushed = popped ++ contents), C15_ms_no_nil_deref. MPSC (mpsc.go): "
            "C15_mpsc_fifo_exactly_once, _step_effect, _nothing_invented, _linked_prefix, _nil_allowed_window (a nil Pop only when the queue is empty "
            "or the producer of its first element is between Swap and Store — allowed, loses nothing), _nothing_stranded, _drain. RingUnbounded and "
            "UnboundedRing (mutex/cond/pump goroutine; machines of the code as repaired by the two patches in fixes/): C15_rupump_prefix / "
            "C15_urpump_prefix (accepted = received ++ channel ++ pump-local ++ ring), _drains_after_close (output closed => everything accepted was "
            "delivered or is still readable), _closes_when_quiescent, and refutations C15_rupump_asis_refuted / C15_urpump_asis_refuted of the code "
            "as it was. On every run: differential runs (ring, backlog), per-step Coq replay of schedules of the instrumented current source "
            "(LFQueue, MPSC), stress runs with trace checks (pumps), Go monitors for loss/duplication/reordering/invention/never-closed.",
    "note": "Trusted: Coq kernel + vm_compute; hand-written models/machines (correspondence checked on the explored inputs/schedules only; the two "
            "pump machines are tied by observable traces only, not step by step); sync/atomic sequentially consistent; no node reuse (GC); MPSC used "
            "with a single consumer; RWMutex writer preference not modelled; backlog containers: Close discards the backlog by design (the property "
            "promises read-after-close only for the ring-backed buffers); no fairness/termination theorem (closes_when_quiescent is the no-stranded form). "
            "Defects: RingUnbounded Write;Close lost the element and UnboundedRing never closed after context cancellation — both repaired by small "
            "patches (fixes/C15-ringunbounded-close.patch, fixes/C15-unboundedring-cancel.patch); on the unrepaired tree the check prints VIOLATION "
            "(rupump:lost-before-close, urpump:never-closed-after-cancel) with replay files.",
    "technique": "Coq proofs (refinement of a list FIFO; invariants over unbounded-thread interleaving machines with ghost linearization history) + "
                 "differential runs + per-step schedule replay of the instrumented source in Coq + stress runs with Coq-checked observable traces",
}


def t2_parts(ctx):
    for (sub, pkg, sources, tdir, kind) in T2:
        b = vlib.t2_build(ctx, sub, pkg, sources, tdir)
        vlib.run_harness(ctx, b, sub, kinds=[kind])


def check(ctx):
    return vlib.standard_check(ctx, ["C15"], "C15/Properties.v", HARNESSES, TRUSTED, "DESIGN.md §6 C15",
                               checker_extra="; instrument + build current toolkit/queues sources (t2_build) and replay their schedules in Coq",
                               chk_modules=["MV.C15.Properties"], pre=t2_parts)


def replay(ctx, path):
    import json
    sub = json.load(open(path)).get("sub")
    for (s, pkg, sources, tdir, kind) in T2:
        if s == sub:
            b = vlib.t2_build(ctx, s, pkg, sources, tdir)
            rc, out, err, _ = vlib.sh([b, "-replay", path], timeout=600)
            print(out.strip())
            if err.strip():
                print(err.strip())
            return rc
    return vlib.standard_replay(ctx, {h["sub"]: h["pkg"] for h in HARNESSES}, path)
