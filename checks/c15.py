# C15 — queues, ring buffers and unbounded channels are loss-free FIFOs
import vlib

TRUSTED = [
    "hand-written model coq/C15/RingModel.v of toolkit/buffer/ring.go, tied by differential runs (harness/cmd/c15ring) — not a translation",
    "Go harness + generators + FIFO monitor (harness/cmd/c15ring, harness/vh), bin/check, lib/vlib.py",
    "Go runtime, slices/copy semantics",
]
HARNESSES = [{"pkg": "c15ring", "sub": "ring"}]


def check(ctx):
    return vlib.standard_check(ctx, ["C15"], "C15/Properties.v", HARNESSES, TRUSTED, "DESIGN.md §6 C15",
                               chk_modules=["MV.C15.Properties"])


def replay(ctx, path):
    return vlib.standard_replay(ctx, {"ring": "c15ring"}, path)
