# shared by C03, C04, C05, C06 (and the actor-level part of C02): kernel model MV.Kernel + lockstep harness klock
import vlib

TRUSTED = [
    "hand-written kernel model coq/Kernel/Model.v of engine/vivid/{actor_context,actor_process,abyss,actor_system}.go and supervision/*.go "
    "(message-step semantics: one label = one message processed by one actor object, or one external action), tied on every run by "
    "lockstep differential execution: scripted scenarios run on the REAL vivid.ActorSystem under a gating scheduler (harness/klock; "
    "hooks engine/vivid/verif_hooks.go, mailbox/verif_hooks.go behind build tag verif) and the recorded label sequence is replayed by "
    "kstep inside Coq, comparing the observations of every step",
    "mailbox specification used by the kernel (one message at a time, system queue first, user queue only while not suspended, FIFO) "
    "is what C01/C02 prove for the mailbox machine",
    "Go map iteration order (children, watchers) modelled as sorted order: those loops deliver to pairwise different mailboxes",
    "scripted user code: roles = rule tables interpreted by harness/klock/klock.go (Go) and Kernel/Model.v do_action (Coq)",
    "timers (OneForOne back-off via time.AfterFunc, scheduler tasks) are not part of this model: scenarios use immediate strategies",
]


def check(ctx, prop, kinds, design, extra_subs=(), extra_trusted=(), extra_dirs=()):
    # extra_subs: further sub-harnesses of the property (dicts as for vlib.standard_check), run after klock
    return vlib.standard_check(
        ctx, ["Kernel", prop] + list(extra_dirs), "%s/Properties.v" % prop,
        [{"pkg": "klock", "sub": "klock", "kinds": kinds}] + list(extra_subs),
        TRUSTED + list(extra_trusted), design, chk_modules=["MV.%s.Properties" % prop])


def replay(ctx, path, extra_pkgs=None):
    return vlib.standard_replay(ctx, dict({"klock": "klock"}, **(extra_pkgs or {})), path)
