# C03 — every actor incarnation sees a well-formed lifecycle
import kernel_common as K

MANIFEST = {
    "text": "Kernel model MV.Kernel.Model (message-step semantics of actor_context.go with user code as data) replayed in lockstep against "
            "the real vivid.ActorSystem on every run (150 random scripted scenarios quick, 3000 thorough; every step's observations must be "
            "equal). Proved for all role tables and states: an actor object whose status is Terminated handles nothing any more "
            "(C03_terminated_handles_nothing). The clause 'first handled message is OnLaunch' is proved FALSE of the faithful model "
            "(C03_first_is_launch_refuted, witness by vm_compute; open finding C03-restart-behind-pending); the remaining grammar clauses are "
            "checked per run by the lockstep correspondence and the lifecycle monitors, not yet by theorem.",
    "note": "Partial: see text. Trusted: Coq kernel+vm_compute, hand-written kernel model (tied by lockstep replay, sampled), gating scheduler "
            "and hooks, script interpreters on both sides; timers not modelled (immediate supervision strategies only).",
    "technique": "Coq proof on a message-step kernel model + lockstep differential replay of the real actor system inside Coq",
}


def check(ctx):
    return K.check(ctx, "C03", ["C03:", "kernel:"], "DESIGN.md §6 C03")


def replay(ctx, path):
    return K.replay(ctx, path)
