# C03 — every actor incarnation sees a well-formed lifecycle
import kernel_common as K

MANIFEST = {
    "text": "Kernel model MV.Kernel.Model (actor_context.go lifecycle: OnLaunch/OnRestarting/OnTerminate/OnTerminated/OnRestarted, restart "
            "completed in one step by start_instance, termination, terminated actors) replayed in lockstep against the real actor system. "
            "Proved for every role table and every run from the freshly started system: C03_launch_first (Kernel/Launch.v, trace-indexed "
            "invariant: every object is a system actor, has OnLaunch at the head of its mailbox, has handled OnLaunch with its current "
            "instance, or is terminated) — an incarnation handles nothing but OnRestarted before its OnLaunch; C03_terminated_is_final, "
            "C03_terminated_handles_nothing, C03_nothing_handled_after_terminated — nothing at all after its own OnTerminated, a restart "
            "cannot revive it. With C04_own_step_ending_suspended_is_waiting and C04_no_user_message_until_decision_run: no user message "
            "between OnRestarting and the fresh instance. The order OnRestarting, OnTerminate, OnTerminated (old instance), OnRestarted, "
            "OnLaunch (new instance) inside the restart is how try_restarted/start_instance are built and is decided per run by step "
            "equality with the model and the C03 monitors.",
    "note": "Partial: 'OnTerminate before own OnTerminated' and the exact restart sequence are per-run (correspondence + monitors), not "
            "theorems. Four defects were repaired (restart only from Alive, terminated actor handled queued messages, restart behind "
            "pending messages, lifecycle-handler panics). Trusted: Coq kernel+vm_compute, hand-written kernel model tied by lockstep replay.",
    "technique": "Coq proof (trace-indexed invariant over every run) on a message-step kernel model + lockstep differential replay of the "
                 "real actor system inside Coq",
}


def check(ctx):
    return K.check(ctx, "C03", ["C03:", "kernel:"], "DESIGN.md §6 C03")


def replay(ctx, path):
    return K.replay(ctx, path)
