# C03 — every actor incarnation sees a well-formed lifecycle
import kernel_common as K

MANIFEST = {
    "text": "Kernel model MV.Kernel.Model (actor_context.go lifecycle: OnLaunch/OnRestarting/OnTerminate/OnTerminated/OnRestarted, restart "
            "completed in one step by start_instance, termination, terminated actors) replayed in lockstep against the real actor system. "
            "Proved for every role table and every run from the freshly started system: C03_launch_first (Kernel/Launch.v, trace-indexed "
            "invariant: every object is a system actor, has OnLaunch at the head of its mailbox, has handled OnLaunch with its current "
            "instance, or is terminated) — an incarnation handles nothing but OnRestarted before its OnLaunch; C03_terminated_is_final, "
            "C03_terminated_handles_nothing, C03_nothing_handled_after_terminated — nothing at all after its own OnTerminated, a restart "
            "cannot revive it; C03_terminate_before_terminated (Kernel/Terminate.v, trace-indexed invariant) — an incarnation whose status becomes "
            "Terminated has handled OnTerminate in an earlier step or in that very step; C03_instance_below_provider_count, "
            "C03_instance_numbers_only_grow, C03_restart_installs_a_fresh_instance (Kernel/Fresh.v) — the instance a completed restart installs "
            "is strictly greater than the one it replaces. C03_restart_completes_in_order (Kernel/Restart.v): the step that completes a restart shows exactly four "
            "Handled observations, in order — OnTerminate, OnTerminated by the old instance number, OnRestarted, OnLaunch by the number the "
            "provider hands out in that step — whatever the handlers do, and leaves the actor alive. "
            "C03_restarting_actor_is_suspended_partial / C03_restarting_actor_handles_no_user_message_partial (Kernel/Held.v; hypotheses of the "
            "hierarchy invariant on the role table): in every reachable state a Restarting actor is suspended with no user message in flight, so a "
            "step of its mailbox handles no user message — whatever arrives meanwhile, Resume decisions included. C03_no_user_message_while_restarting_partial "
            "(with C04_own_step_ending_suspended_is_waiting): between OnRestarting and that step the actor is waiting and stays so through "
            "every step without a marker for its address, provided no resume request is pending; C03_resume_request_ignored_unless_alive: a "
            "supervisor's Resume decision, which travels as a queued request since fix 925aa8b, is ignored by a restarting actor.",
    "note": "Partial: the order of OnTerminate and OnTerminated INSIDE one step (a childless actor terminating within the step that handles "
            "the request) is per-run (correspondence, monitors), not a theorem; the restarting-actor invariant carries the hierarchy hypotheses on the role table. The invariant is the "
            "statement whose proof attempt exposed defect 925aa8b (the model produced the refuting history by vm_compute, harness/cmd/kscript "
            "replayed it on the implementation). C03_launch_first is about the model, whose spawn registers the address and queues OnLaunch in one step; in the code "
            "these were two steps of ActorOf with a window in between (a message sent to the new address was handled before OnLaunch: "
            "13 of 3000 spawns in findings/C03-message-before-onlaunch_demo_test.go) — repaired by bde59a1 (mailbox created suspended "
            "until OnLaunch is taken up) and watched on every run by the actor-level harness c01turns (C03:turns:*). Seven defects were "
            "repaired (restart only from Alive, no user message while restarting, terminated actor handled queued messages, restart behind "
            "pending messages, lifecycle-handler panics, message before OnLaunch, stale Resume decision during a restart). Trusted: Coq kernel+vm_compute, hand-written kernel model tied by lockstep replay.",
    "technique": "Coq proof (trace-indexed invariant over every run) on a message-step kernel model + lockstep differential replay of the "
                 "real actor system inside Coq",
}


TURNS_TRUSTED = [
    "the atomicity of creation that the kernel model assumes (spawn = registration of the address AND queuing of OnLaunch in one step) is "
    "not a step of the lockstep harness; it is checked on the real system by harness/cmd/c01turns (real goroutines, every entry point "
    "fired at freshly created actors; monitor C03:turns:user-message-before-OnLaunch) — sampled, not proved",
]


def check(ctx):
    # the second sub-harness is C01's actor-level harness, run here for its C03 monitor: a message sent to the address of an
    # actor whose parent is still inside ActorOf must not be handled before OnLaunch (defect repaired by /repo bde59a1)
    return K.check(ctx, "C03", ["C03:", "kernel:"], "DESIGN.md §6 C03",
                   extra_subs=[{"pkg": "c01turns", "sub": "turns", "kinds": ["C03:turns:"], "args": ["-n", "800"]},
                               {"pkg": "c03launch", "sub": "launch", "kinds": ["C03:launch:"], "coq": False},
                               # C09's persistence harness, run here for its C03 monitor only: a recovering incarnation handles
                               # its OnLaunch before the replayed snapshot and events
                               {"pkg": "c09persist", "sub": "persist", "kinds": ["C03:persist:"], "coq": False},
                               # a provider that fails while a restart is completed (outside the kernel model): traces stay well-formed
                               {"pkg": "c03prov", "sub": "prov", "kinds": ["C03:provider:"], "coq": False}],
                   extra_trusted=TURNS_TRUSTED, extra_dirs=["C01"])


def replay(ctx, path):
    return K.replay(ctx, path, extra_pkgs={"turns": "c01turns", "launch": "c03launch", "persist": "c09persist", "prov": "c03prov"})
