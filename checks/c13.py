# C13 — a cluster identity maps to one actor per ability (the cluster manager / drill-master actor)
import vlib

TRUSTED = [
    "hand-written model coq/C13/DrillModel.v of engine/vivid/cluster/drillmaster_actor.go (onActorOf, onTerminated) plus the "
    "name rule and the 'already exists' panic of vivid ActorOf, tied by differential runs of the real actor "
    "(harness/cmd/c13drill through hook engine/vivid/cluster/verif_hooks.go) — not a translation",
    "the manager is an actor: its mailbox serialises requests, so every schedule of concurrent callers is one of the "
    "sequential histories the theorems quantify over (mailbox serialisation itself is property C01/C02)",
    "Go harness + generators + monitor (harness/cmd/c13drill, harness/vh), bin/check, lib/vlib.py; vivid ActorSystem, "
    "FutureAsk and supervision as the vehicle of the runs",
]
HARNESSES = [{"pkg": "c13drill", "sub": "drill"}]
MANIFEST = {
    "text": "For the repaired manager actor (members stored, unusable names refused, terminated children forgotten, "
            "length-prefixed child names) Coq proves over all histories of lookups and child terminations: no request "
            "makes the manager fail, an ability that is not offered is answered with an error, all lookups of a pair "
            "between two terminations return one reference and one actor instance, an actor is created at most once "
            "per lifetime, different pairs never share a reference or an actor. The same model is run in Coq on every "
            "recorded run of the real actor (sequential, burst and concurrent client actors), including its members "
            "table and launch counts; a Go monitor restates the property on the observed answers.",
    "note": "needs hook H3 (engine/vivid/cluster/verif_hooks.go, build tag verif) and fixes/C13-*.patch; the derivation "
            "identity-ability of the unrepaired code is refuted in Coq (C13_*_refuted_for_dash_naming) and proved "
            "safe only for identities without '-'. memberlist, gossip and ActorOfC's node choice are out of scope.",
    "technique": "Coq invariant proofs over an executable list machine + differential runs of the real actor + Go monitor",
}


def check(ctx):
    return vlib.standard_check(ctx, ["C13"], "C13/Properties.v", HARNESSES, TRUSTED, "DESIGN.md §6 C13",
                               chk_modules=["MV.C13.Properties"])


def replay(ctx, path):
    return vlib.standard_replay(ctx, {"drill": "c13drill"}, path)
