# C13 — a cluster identity maps to one actor per ability (the cluster manager / drill-master actor)
import vlib

TRUSTED = [
    "hand-written model coq/C13/DrillModel.v of engine/vivid/cluster/drillmaster_actor.go (onActorOf, onTerminated) and of "
    "the member wrapper engine/vivid/cluster/actor.go (it tells the manager nothing when it begins to terminate), plus the "
    "name rule and the 'already exists' panic of vivid ActorOf and vivid's two-phase termination (a Terminating actor stays "
    "registered under its name until tryTerminated unregisters it and notifies the parent), tied by differential runs of the "
    "real actor (harness/cmd/c13drill through hook engine/vivid/cluster/verif_hooks.go) — not a translation",
    "the termination window is produced by the harness: the member's OnTerminate handler (or that of a child it spawned) "
    "blocks on a channel of the harness; inside the window the member cannot be pinged, the actor instance behind a "
    "returned address is read from the harness's launch log (last launch under that name); the second window, between "
    "the member's unregistration and the manager's handling of the notice, is not controlled (the harness waits it out)",
    "descriptor configurators of an ability (WithAbility(name, provider, configurator...)) are not part of the model: "
    "the model says the child name is len(identity)-identity-ability whatever they set; that the manager's naming is "
    "applied after them is checked by runs with abilities declared with a name prefix, a name, both, two configurators, "
    "harmless options only and a slice with spare capacity (counted in the evidence distribution), not proved",
    "the manager is an actor: its mailbox serialises requests, so every schedule of concurrent callers is one of the "
    "sequential histories the theorems quantify over (mailbox serialisation itself is property C01/C02)",
    "Go harness + generators + monitor (harness/cmd/c13drill, harness/vh), bin/check, lib/vlib.py; vivid ActorSystem, "
    "FutureAsk and supervision as the vehicle of the runs",
]
HARNESSES = [{"pkg": "c13drill", "sub": "drill"}]
MANIFEST = {
    "text": "Faulty ability providers (a provider that panics on one invocation must not make the manager fail nor an unrelated pair be created again) are exercised by a monitors-only family of the harness; they are not part of the model. For the repaired manager actor (members stored, unusable names refused, terminated children forgotten, "
            "length-prefixed child names) Coq proves over all histories of lookups and child terminations: no request "
            "makes the manager fail, an ability that is not offered is answered with an error, all lookups of a pair "
            "between two terminations return one reference and one actor instance, an actor is created at most once "
            "per lifetime, different pairs never share a reference or an actor. Termination has two phases in the "
            "model as in vivid: while a member is terminating (still registered under its name, the manager not yet "
            "notified) it keeps its slot — the manager's table, the taken names and the creation log are unchanged, a "
            "lookup of the pair is answered with the old reference, creates nothing and cannot fail the manager; only "
            "a completed termination pays for a new creation. The same model is run in Coq on every "
            "recorded run of the real actor (sequential, burst and concurrent client actors; half of the sequential "
            "histories hold members in the Terminating state and look the same and other pairs up inside that window; "
            "half of the nodes declare abilities with descriptor configurators of their own that set a name prefix "
            "and/or a name, which must not change any answer), including its members "
            "table and launch counts; a Go monitor restates the property on the observed answers.",
    "note": "needs hook H3 (engine/vivid/cluster/verif_hooks.go, build tag verif) and fixes/C13-*.patch; the derivation "
            "identity-ability of the unrepaired code is refuted in Coq (C13_*_refuted_for_dash_naming) and proved "
            "safe only for identities without '-'. A manager that released the pair when its member BEGINS to "
            "terminate is shown to panic on the next lookup (Example C13_example_release_at_begin_would_fail). A "
            "lookup inside the window returns a reference whose actor no longer handles user messages; the property "
            "text does not forbid that. memberlist, gossip and ActorOfC's node choice are out of scope.",
    "technique": "Coq invariant proofs over an executable list machine + differential runs of the real actor + Go monitor",
}


def check(ctx):
    return vlib.standard_check(ctx, ["C13"], "C13/Properties.v", HARNESSES, TRUSTED, "DESIGN.md §6 C13",
                               chk_modules=["MV.C13.Properties"])


def replay(ctx, path):
    return vlib.standard_replay(ctx, {"drill": "c13drill"}, path)
